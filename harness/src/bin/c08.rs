//! C08: core array primitives vs the Gallina reference (coq/Model/Prims.v).
//!   c08 tie N        -> JSON lines, one generated case each:
//!        {"line": compact case (fill, program, stack, observed result), "src": uiua source,
//!         "err": error text or null, "ops": [...], "first": first primitive}
//!   c08 tie N FILE   -> the same, after replaying the regression corpus FILE (lines "num|byte fill prog stack")
//!   c08 run [loud]   -> replays corpus lines from stdin (loud: panic message and location on stderr)
//! Compact grammar (whitespace separated tokens):
//!   case  := fill prog stack result
//!   fill  := f0 | f1 elemty int            (scalar number / character fill)
//!   prog  := p k op*k ;  op := NAME | OLit AOP sc k amt*k ; amt := i<int> | inf | ninf | frac | nan
//!   stack := s k arr*k                     (top of stack first)
//!   arr   := a (n|c|b) rank dim*rank elem*prod ; elem := int | arr
//!   result:= ok k arr*k | err
use std::fmt::Write as _;

use uiua::{Boxed, Value};
use uvh::*;

// ---------------------------------------------------------------- arrays

#[derive(Clone, Debug, PartialEq)]
enum D {
    N(Vec<i64>),
    C(Vec<u32>),
    B(Vec<A>),
}
#[derive(Clone, Debug, PartialEq)]
struct A {
    shape: Vec<usize>,
    d: D,
}

const BIG: f64 = 9007199254740992.0;

impl A {
    fn ty(&self) -> char {
        match self.d {
            D::N(_) => 'n',
            D::C(_) => 'c',
            D::B(_) => 'b',
        }
    }
    fn rank(&self) -> usize {
        self.shape.len()
    }
    fn rows(&self) -> usize {
        self.shape.first().copied().unwrap_or(1)
    }
    fn to_value(&self, r: &mut Rng) -> Value {
        match &self.d {
            D::N(v) => {
                if v.iter().all(|x| (0..=255).contains(x)) && r.chance(1, 2) {
                    byte(&self.shape, &v.iter().map(|x| *x as u8).collect::<Vec<_>>())
                } else {
                    num(&self.shape, &v.iter().map(|x| *x as f64).collect::<Vec<_>>())
                }
            }
            D::C(v) => chars(&self.shape, &v.iter().map(|c| char::from_u32(*c).unwrap()).collect::<Vec<_>>()),
            D::B(v) => boxes(&self.shape, v.iter().map(|a| a.to_value(r)).collect()),
        }
    }
    /// conversion with a fixed number storage (regression corpus): byte storage where possible
    fn to_value_storage(&self, want_byte: bool) -> Value {
        match &self.d {
            D::N(v) => {
                if want_byte && v.iter().all(|x| (0..=255).contains(x)) {
                    byte(&self.shape, &v.iter().map(|x| *x as u8).collect::<Vec<_>>())
                } else {
                    num(&self.shape, &v.iter().map(|x| *x as f64).collect::<Vec<_>>())
                }
            }
            D::C(v) => chars(&self.shape, &v.iter().map(|c| char::from_u32(*c).unwrap()).collect::<Vec<_>>()),
            D::B(v) => boxes(&self.shape, v.iter().map(|a| a.to_value_storage(want_byte)).collect()),
        }
    }
    fn from_value(v: &Value) -> Option<A> {
        let shape: Vec<usize> = v.shape.iter().copied().collect();
        // results beyond 20000 elements (range of a large number met on the way) are outside the
        // tie's size class: the case is rejected and counted, like a non-integer result
        if shape.iter().product::<usize>() > 20000 {
            return None;
        }
        let d = match v {
            Value::Num(a) => {
                let mut out = Vec::new();
                for x in a.elements() {
                    if x.fract() != 0.0 || !(x.abs() < BIG) {
                        return None;
                    }
                    out.push(*x as i64);
                }
                D::N(out)
            }
            Value::Byte(a) => D::N(a.elements().map(|x| *x as i64).collect()),
            Value::Char(a) => D::C(a.elements().map(|c| *c as u32).collect()),
            Value::Complex(_) => return None,
            Value::Box(a) => {
                let mut out = Vec::new();
                for Boxed(b) in a.elements() {
                    out.push(A::from_value(b)?);
                }
                D::B(out)
            }
        };
        Some(A { shape, d })
    }
    fn compact(&self, s: &mut String) {
        write!(s, "a {} {}", self.ty(), self.shape.len()).unwrap();
        for d in &self.shape {
            write!(s, " {d}").unwrap();
        }
        match &self.d {
            D::N(v) => v.iter().for_each(|x| write!(s, " {x}").unwrap()),
            D::C(v) => v.iter().for_each(|x| write!(s, " {x}").unwrap()),
            D::B(v) => v.iter().for_each(|x| {
                s.push(' ');
                x.compact(s)
            }),
        }
    }
}

// ---------------------------------------------------------------- ops

#[derive(Clone, Debug)]
enum Amt {
    I(i64),
    Inf(bool),
    Frac(f64),
    NaN,
}

#[derive(Clone, Debug)]
enum Op {
    Plain(usize),               // index into OPS
    Lit(usize, bool, Vec<Amt>), // index into AOPS, scalar?, amounts
}

/// (Coq constructor, glyph, arity, class)
/// class: 1 monadic-any, 2 pervasive dyadic, 3 pervasive monadic, 4 numeric-monadic (range/where),
///        5 row ops (sort..), 6 dyadic structural, 7 amount op, 8 stack, 9 unbox
const OPS: &[(&str, &str, usize, u8)] = &[
    ("OP2:PAdd", "+", 2, 2),
    ("OP2:PSub", "-", 2, 2),
    ("OP2:PMul", "×", 2, 2),
    ("OP2:PEq", "=", 2, 2),
    ("OP2:PNe", "≠", 2, 2),
    ("OP2:PLt", "<", 2, 2),
    ("OP2:PLe", "≤", 2, 2),
    ("OP2:PGt", ">", 2, 2),
    ("OP2:PGe", "≥", 2, 2),
    ("OP2:PMin", "↧", 2, 2),
    ("OP2:PMax", "↥", 2, 2),
    ("OP1:PNeg", "¯", 1, 3),
    ("OP1:PAbs", "⌵", 1, 3),
    ("OP1:PSign", "±", 1, 3),
    ("OP1:PNot", "¬", 1, 3),
    ("OLen", "⧻", 1, 1),
    ("OShape", "△", 1, 1),
    ("ORange", "⇡", 1, 4),
    ("OFirst", "⊢", 1, 1),
    ("OLast", "⊣", 1, 1),
    ("OReverse", "⇌", 1, 1),
    ("ODeshape", "♭", 1, 1),
    ("OFix", "¤", 1, 1),
    ("OTranspose", "⍉", 1, 1),
    ("OSort", "⍆", 1, 5),
    ("ORise", "⍏", 1, 5),
    ("OFall", "⍖", 1, 5),
    ("OWhere", "⊚", 1, 4),
    ("OClassify", "⊛", 1, 5),
    ("ODedup", "◴", 1, 5),
    ("OBox", "□", 1, 1),
    ("OUnbox", "°□", 1, 9),
    ("OMatch", "≍", 2, 6),
    ("OCouple", "⊟", 2, 6),
    ("OJoin", "⊂", 2, 6),
    ("OMember", "∊", 2, 6),
    ("OIndexIn", "⊗", 2, 6),
    ("OFind", "⌕", 2, 6),
    ("OAmt:ATake", "↙", 2, 7),
    ("OAmt:ADrop", "↘", 2, 7),
    ("OAmt:ARotate", "↻", 2, 7),
    ("OAmt:AReshape", "↯", 2, 7),
    ("OAmt:ASelect", "⊏", 2, 7),
    ("OAmt:APick", "⊡", 2, 7),
    ("OAmt:AKeep", "▽", 2, 7),
    ("ODup", ".", 1, 8),
    ("OFlip", ":", 2, 8),
];
const AOPS: &[(&str, &str)] = &[
    ("ATake", "↙"),
    ("ADrop", "↘"),
    ("ARotate", "↻"),
    ("AReshape", "↯"),
    ("ASelect", "⊏"),
    ("APick", "⊡"),
    ("AKeep", "▽"),
];

fn num_src(x: i64) -> String {
    if x < 0 { format!("¯{}", -x) } else { format!("{x}") }
}
fn amt_src(a: &Amt) -> String {
    match a {
        Amt::I(x) => num_src(*x),
        Amt::Inf(false) => "∞".into(),
        Amt::Inf(true) => "¯∞".into(),
        Amt::Frac(f) => {
            if *f < 0.0 { format!("¯{}", -f) } else { format!("{f}") }
        }
        Amt::NaN => "NaN".into(),
    }
}
fn amt_tok(a: &Amt) -> String {
    match a {
        Amt::I(x) => format!("i{x}"),
        Amt::Inf(false) => "inf".into(),
        Amt::Inf(true) => "ninf".into(),
        Amt::Frac(_) => "frac".into(),
        Amt::NaN => "nan".into(),
    }
}

impl Op {
    fn src(&self) -> String {
        match self {
            Op::Plain(i) => OPS[*i].1.to_string(),
            Op::Lit(i, sc, amts) => {
                let g = AOPS[*i].1;
                if *sc {
                    format!("{g}{}", amt_src(&amts[0]))
                } else if amts.len() >= 2 {
                    format!("{g}{}", amts.iter().map(amt_src).collect::<Vec<_>>().join("_"))
                } else {
                    format!("{g}[{}]", amts.iter().map(amt_src).collect::<Vec<_>>().join(" "))
                }
            }
        }
    }
    fn tok(&self) -> String {
        match self {
            Op::Plain(i) => OPS[*i].0.to_string(),
            Op::Lit(i, sc, amts) => {
                let mut s = format!("OLit {} {} {}", AOPS[*i].0, *sc as u8, amts.len());
                for a in amts {
                    s.push(' ');
                    s.push_str(&amt_tok(a));
                }
                s
            }
        }
    }
    fn name(&self) -> String {
        match self {
            Op::Plain(i) => OPS[*i].0.to_string(),
            Op::Lit(i, _, _) => format!("OLit:{}", AOPS[*i].0),
        }
    }
    fn arity(&self) -> usize {
        match self {
            Op::Plain(i) => OPS[*i].2,
            Op::Lit(..) => 1,
        }
    }
}

#[derive(Clone, Debug)]
enum Fill {
    None,
    N(i64),
    C(u32),
}
impl Fill {
    fn tok(&self) -> String {
        match self {
            Fill::None => "f0".into(),
            Fill::N(x) => format!("f1 n {x}"),
            Fill::C(c) => format!("f1 c {c}"),
        }
    }
    fn wrap(&self, body: &str) -> String {
        match self {
            Fill::None => body.to_string(),
            Fill::N(x) => format!("⬚{}({body})", num_src(*x)),
            Fill::C(c) => format!("⬚@{}({body})", char::from_u32(*c).unwrap()),
        }
    }
}

fn prog_src(fill: &Fill, ops: &[Op]) -> String {
    let body = ops.iter().rev().map(|o| o.src()).collect::<Vec<_>>().join(" ");
    fill.wrap(&body)
}

// ---------------------------------------------------------------- generators

struct Gen {
    r: Rng,
    shape_ctr: usize,
    all_shapes: Vec<Vec<usize>>,
}

fn all_shapes() -> Vec<Vec<usize>> {
    let mut out = vec![vec![]];
    let mut level: Vec<Vec<usize>> = vec![vec![]];
    for _ in 0..4 {
        let mut next = Vec::new();
        for s in &level {
            for d in 0..=4 {
                let mut t = s.clone();
                t.push(d);
                next.push(t);
            }
        }
        out.extend(next.iter().cloned());
        level = next;
    }
    out
}

impl Gen {
    fn dim(&mut self) -> usize {
        match self.r.below(100) {
            0..=11 => 0,
            12..=26 => 1,
            27..=56 => 2,
            57..=84 => 3,
            _ => 4,
        }
    }
    fn rank(&mut self) -> usize {
        match self.r.below(10) {
            0 => 0,
            1..=3 => 1,
            4..=6 => 2,
            7..=8 => 3,
            _ => 4,
        }
    }
    fn shape(&mut self) -> Vec<usize> {
        if self.r.chance(1, 2) {
            // exhaustive sweep over all shapes of rank 0-4 with axis lengths 0-4
            self.shape_ctr += 1;
            return self.all_shapes[(self.shape_ctr * 7919) % self.all_shapes.len()].clone();
        }
        let k = self.rank();
        (0..k).map(|_| self.dim()).collect()
    }
    fn shape_rank(&mut self, lo: usize, hi: usize) -> Vec<usize> {
        let k = lo + self.r.below(hi - lo + 1);
        (0..k).map(|_| self.dim()).collect()
    }
    fn ty(&mut self) -> char {
        match self.r.below(10) {
            0..=5 => 'n',
            6..=8 => 'c',
            _ => 'b',
        }
    }
    fn int(&mut self) -> i64 {
        match self.r.below(20) {
            0..=13 => self.r.range(0, 3),
            14..=16 => self.r.range(-3, 5),
            17 => self.r.range(-300, 300),
            18 => 255 + self.r.range(0, 2),
            _ => self.r.range(-100000, 100000),
        }
    }
    fn ch(&mut self) -> u32 {
        if self.r.chance(4, 5) {
            *self.r.pick(&['a', 'b', 'c', 'A']) as u32
        } else {
            *self.r.pick(&['z', ' ', '0', 'é', 'λ', '→', '\n', '@']) as u32
        }
    }
    fn arr_ty(&mut self, ty: char, shape: &[usize], depth: usize) -> A {
        let shape = &self.clamp_box(ty, shape)[..];
        let n: usize = shape.iter().product();
        let d = match ty {
            'n' => D::N((0..n).map(|_| self.int()).collect()),
            'c' => D::C((0..n).map(|_| self.ch()).collect()),
            _ => D::B((0..n)
                .map(|_| {
                    let sh = self.shape_rank(0, 2);
                    let t = if depth >= 1 { if self.r.chance(1, 2) { 'n' } else { 'c' } } else { self.ty() };
                    if self.r.chance(1, 3) {
                        // few distinct boxed values so that duplicates occur
                        let x = self.r.range(0, 2);
                        A { shape: vec![], d: D::N(vec![x]) }
                    } else {
                        self.arr_ty(t, &sh, depth + 1)
                    }
                })
                .collect()),
        };
        A { shape: shape.to_vec(), d }
    }
    fn arr(&mut self) -> A {
        let sh = self.shape();
        let t = self.ty();
        self.arr_ty(t, &sh, 0)
    }
    /// box arrays are kept below 40 elements (term size); other arrays use the full shape range
    fn clamp_box(&mut self, ty: char, shape: &[usize]) -> Vec<usize> {
        let mut sh = shape.to_vec();
        if ty == 'b' {
            while sh.iter().product::<usize>() > 40 {
                let i = self.r.below(sh.len());
                if sh[i] > 1 {
                    sh[i] -= 1;
                }
            }
        }
        sh
    }
    fn small_nums(&mut self, shape: &[usize], lo: i64, hi: i64) -> A {
        let n: usize = shape.iter().product();
        A { shape: shape.to_vec(), d: D::N((0..n).map(|_| self.r.range(lo, hi)).collect()) }
    }
    fn nc(&mut self) -> char {
        if self.r.chance(2, 3) { 'n' } else { 'c' }
    }

    // -- amounts, given the shape of the array they apply to
    fn axis_amt(&mut self, n: usize, special: bool, inf_ok: bool) -> Amt {
        let n = n as i64;
        match self.r.below(100) {
            0..=54 => Amt::I(self.r.range(-n, n)),
            55..=74 => Amt::I(self.r.range(-n - 2, n + 2)),
            75..=84 => Amt::I(if self.r.chance(1, 2) { 7 } else { -7 }),
            85..=92 if inf_ok => Amt::Inf(false),
            93..=94 if special => Amt::Inf(true),
            95..=97 if special => Amt::Frac(*self.r.pick(&[0.5, 1.5, -0.5, 2.5])),
            98..=99 if special => Amt::NaN,
            _ => Amt::I(self.r.range(0, n)),
        }
    }
    /// (scalar?, index-array shape, amounts); lit: rank <= 1 and special amounts allowed
    fn amts(&mut self, aop: usize, sh: &[usize], lit: bool) -> (Vec<usize>, Vec<Amt>) {
        let r = sh.len();
        match aop {
            0 | 1 | 2 => {
                let inf_ok = lit && aop != 2 || (lit && self.r.chance(1, 10));
                if r == 0 || self.r.chance(1, 2) {
                    let n = sh.first().copied().unwrap_or(1);
                    (vec![], vec![self.axis_amt(n, lit, inf_ok)])
                } else {
                    let k = match self.r.below(20) {
                        0..=1 => 0,
                        2..=3 => r + 1,
                        4..=8 => r,
                        _ => 1 + self.r.below(r),
                    };
                    let v: Vec<Amt> = (0..k).map(|i| self.axis_amt(sh.get(i).copied().unwrap_or(2), lit, inf_ok)).collect();
                    (vec![k], v)
                }
            }
            3 => {
                // reshape
                if self.r.chance(1, 4) {
                    let a = if lit && self.r.chance(1, 8) { Amt::Inf(self.r.chance(1, 3)) } else { Amt::I(self.r.range(-3, 4)) };
                    (vec![], vec![a])
                } else {
                    let k = match self.r.below(10) {
                        0 => 0,
                        1..=3 => 1,
                        4..=7 => 2,
                        8 => 3,
                        _ => 4,
                    };
                    let mut v: Vec<Amt> = (0..k)
                        .map(|_| {
                            let d = self.dim() as i64;
                            Amt::I(if self.r.chance(1, 7) { -d } else { d })
                        })
                        .collect();
                    if lit && k > 0 {
                        if self.r.chance(1, 4) {
                            let i = self.r.below(k);
                            v[i] = Amt::Inf(self.r.chance(1, 4));
                        }
                        if self.r.chance(1, 25) {
                            let i = self.r.below(k);
                            v[i] = Amt::Inf(false);
                        }
                        if self.r.chance(1, 30) {
                            let i = self.r.below(k);
                            v[i] = if self.r.chance(1, 2) { Amt::Frac(1.5) } else { Amt::NaN };
                        }
                    }
                    (vec![k], v)
                }
            }
            4 => {
                // select
                let n = sh.first().copied().unwrap_or(1) as i64;
                let ish: Vec<usize> = match self.r.below(8) {
                    0..=1 => vec![],
                    2..=5 => vec![self.r.below(5)],
                    _ if !lit => vec![self.r.below(4), self.r.below(4)],
                    _ => vec![1 + self.r.below(3)],
                };
                let cnt: usize = ish.iter().product();
                let v = (0..cnt)
                    .map(|_| match self.r.below(40) {
                        0..=31 => Amt::I(self.r.range(-n, (n - 1).max(-n))),
                        32..=36 => Amt::I(self.r.range(-n - 2, n + 1)),
                        37 if lit => Amt::Inf(self.r.chance(1, 2)),
                        38 if lit => Amt::Frac(0.5),
                        39 if lit => Amt::NaN,
                        _ => Amt::I(0),
                    })
                    .collect();
                (ish, v)
            }
            5 => {
                // pick
                let k = match self.r.below(20) {
                    0 => 0,
                    1..=2 => r + 1,
                    3..=9 => r,
                    _ => 1 + self.r.below(r.max(1)),
                };
                let ish: Vec<usize> = match self.r.below(8) {
                    0..=1 if k == 1 => vec![],
                    6..=7 if !lit => vec![self.r.below(4), k],
                    _ => vec![k],
                };
                let m: usize = if ish.len() == 2 { ish[0] } else { 1 };
                let mut v = Vec::new();
                for _ in 0..m {
                    for i in 0..k {
                        let n = sh.get(i).copied().unwrap_or(1) as i64;
                        v.push(match self.r.below(40) {
                            0..=33 => Amt::I(self.r.range(-n, (n - 1).max(-n))),
                            34..=37 => Amt::I(self.r.range(-n - 2, n + 1)),
                            38 if lit => Amt::Inf(false),
                            39 if lit => Amt::Frac(1.5),
                            _ => Amt::I(0),
                        });
                    }
                }
                (ish, v)
            }
            _ => {
                // keep
                let n = sh.first().copied().unwrap_or(1);
                if self.r.chance(3, 10) {
                    let a = if lit && self.r.chance(1, 8) { Amt::Frac(*self.r.pick(&[0.5, 1.5])) } else { Amt::I(self.r.range(-1, 3)) };
                    (vec![], vec![a])
                } else {
                    let k = match self.r.below(10) {
                        0..=6 => n,
                        7..=8 => self.r.below(n + 1),
                        _ => n + 1,
                    };
                    let v = (0..k)
                        .map(|_| if lit && self.r.chance(1, 40) { Amt::Frac(1.5) } else { Amt::I(self.r.range(-1, 2)) })
                        .collect();
                    (vec![k], v)
                }
            }
        }
    }

    fn amt_arr(ish: &[usize], v: &[Amt]) -> A {
        A {
            shape: ish.to_vec(),
            d: D::N(v.iter().map(|a| if let Amt::I(x) = a { *x } else { 0 }).collect()),
        }
    }

    /// initial stack (top first) for a first op
    fn args_for(&mut self, opi: usize) -> Vec<A> {
        let (name, _, arity, class) = OPS[opi];
        match class {
            2 => {
                // pervasive dyadic: shapes mostly in leading-axis agreement
                let s = self.shape();
                let t: Vec<usize> = match self.r.below(20) {
                    0..=10 => s[..self.r.below(s.len() + 1)].to_vec(),
                    11..=12 => s.clone(),
                    13..=16 => s.iter().map(|d| if self.r.chance(1, 2) { *d } else { self.dim() }).collect(),
                    _ => self.shape(),
                };
                let (ta, tb) = match name {
                    "OP2:PAdd" | "OP2:PSub" => match self.r.below(10) {
                        0..=5 => ('n', 'n'),
                        6 => ('n', 'c'),
                        7 => ('c', 'n'),
                        8 => ('c', 'c'),
                        _ => (self.ty(), self.ty()),
                    },
                    "OP2:PMul" => if self.r.chance(9, 10) { ('n', 'n') } else { (self.ty(), self.ty()) },
                    _ => match self.r.below(10) {
                        0..=5 => ('n', 'n'),
                        6..=8 => ('c', 'c'),
                        _ => (self.ty(), self.ty()),
                    },
                };
                let a = self.arr_ty(ta, &s, 0);
                let b = self.arr_ty(tb, &t, 0);
                if self.r.chance(1, 2) { vec![a, b] } else { vec![b, a] }
            }
            3 => {
                let s = self.shape();
                let t = if self.r.chance(9, 10) { 'n' } else { self.ty() };
                vec![self.arr_ty(t, &s, 0)]
            }
            4 => {
                if name == "ORange" {
                    match self.r.below(20) {
                        0..=8 => vec![self.small_nums(&[], -3, 5)],
                        9..=16 => {
                            let k = self.r.below(4);
                            vec![self.small_nums(&[k], -2, 3)]
                        }
                        17 => vec![self.small_nums(&[2, 2], 0, 2)],
                        _ => vec![self.arr()],
                    }
                } else {
                    let s = self.shape();
                    match self.r.below(20) {
                        0..=15 => vec![self.small_nums(&s, 0, 2)],
                        16..=17 => vec![self.small_nums(&s, -1, 2)],
                        _ => vec![self.arr()],
                    }
                }
            }
            5 => {
                let s = self.shape();
                let t = self.ty();
                let mut a = self.arr_ty(t, &s, 0);
                // narrow alphabet so that duplicates and ties are frequent
                if let D::N(v) = &mut a.d {
                    if self.r.chance(2, 3) {
                        v.iter_mut().for_each(|x| *x = x.rem_euclid(3));
                    }
                }
                vec![a]
            }
            6 => self.args_dyadic(name),
            7 => {
                let aop = opi - 38;
                let x = self.arr();
                let (ish, v) = self.amts(aop, &x.shape, false);
                let mut i = Self::amt_arr(&ish, &v);
                if self.r.chance(1, 40) {
                    let any = self.arr(); // any first argument at all
                    // carve-out: reshape to more than 8 axes is not generated (the implementation
                    // refuses 99 or more axes; the documentation gives no limit)
                    if !(aop == 3 && any.shape.iter().product::<usize>() > 8) {
                        i = any;
                    }
                }
                vec![i, x]
            }
            9 => {
                let x = self.arr();
                if self.r.chance(4, 5) { vec![A { shape: vec![], d: D::B(vec![x]) }] } else { vec![x] }
            }
            _ => (0..arity).map(|_| self.arr()).collect(),
        }
    }

    fn args_dyadic(&mut self, name: &str) -> Vec<A> {
        let t = self.ty();
        match name {
            "OMatch" => {
                let a = self.arr();
                let b = match self.r.below(4) {
                    0..=1 => a.clone(),
                    2 => {
                        let mut b = a.clone();
                        match &mut b.d {
                            D::N(v) if !v.is_empty() => {
                                let i = self.r.below(v.len());
                                v[i] += 1
                            }
                            D::C(v) if !v.is_empty() => {
                                let i = self.r.below(v.len());
                                v[i] = 'q' as u32
                            }
                            _ => b.shape.insert(0, 1),
                        }
                        b
                    }
                    _ => self.arr(),
                };
                vec![a, b]
            }
            "OCouple" | "OJoin" => {
                let s = self.shape();
                let other: Vec<usize> = match self.r.below(20) {
                    0..=4 => s.clone(),
                    5..=8 => {
                        // same row shape, other length
                        let mut o = s.clone();
                        if !o.is_empty() {
                            o[0] = self.dim();
                        }
                        o
                    }
                    9..=11 => s.iter().skip(1).copied().collect(), // a row
                    12..=13 => {
                        let k = self.r.below(s.len() + 1);
                        s[k..].to_vec() // a suffix
                    }
                    14..=17 => s.iter().map(|d| if self.r.chance(1, 2) { *d } else { self.dim() }).collect(),
                    _ => self.shape(),
                };
                let t2 = if self.r.chance(9, 10) { t } else { self.ty() };
                let a = self.arr_ty(t, &s, 0);
                let b = self.arr_ty(t2, &other, 0);
                if self.r.chance(1, 2) { vec![a, b] } else { vec![b, a] }
            }
            "OMember" | "OIndexIn" if self.r.chance(1, 2) => {
                // searched-in array with REPEATED rows, searched-for cells in another order than
                // they first occur (first-occurrence law), equal and lower ranks
                let t = if t == 'b' && self.r.chance(1, 2) { 'n' } else { t };
                let cell: Vec<usize> = (0..self.r.below(3)).map(|_| 1 + self.r.below(2)).collect();
                let npool = 1 + self.r.below(3);
                let mut pool: Vec<A> = Vec::new();
                while pool.len() < npool {
                    let c = self.arr_ty(t, &cell, 1);
                    if !pool.contains(&c) {
                        pool.push(c);
                    } else if self.r.chance(1, 4) {
                        break;
                    }
                }
                let hn = 2 + self.r.below(4);
                let rows: Vec<usize> = (0..hn).map(|_| self.r.below(pool.len())).collect();
                // distinct rows in the reverse order of their first occurrence, then some more
                let mut order: Vec<usize> = Vec::new();
                for i in &rows {
                    if !order.contains(i) {
                        order.push(*i);
                    }
                }
                order.reverse();
                let extra = self.r.below(3);
                for _ in 0..extra {
                    order.push(self.r.below(pool.len()));
                }
                let missing = self.arr_ty(t, &cell, 1);
                let mut cells: Vec<A> = order.iter().map(|i| pool[*i].clone()).collect();
                if self.r.chance(1, 3) {
                    let at = self.r.below(cells.len() + 1);
                    cells.insert(at, missing);
                }
                let lead: Vec<usize> = match self.r.below(6) {
                    0 => {
                        cells.truncate(1);
                        vec![] // one cell: lower rank
                    }
                    1 if cells.len() % 2 == 0 => vec![2, cells.len() / 2],
                    _ => vec![cells.len()],
                };
                fn pack(t: char, lead: &[usize], cell: &[usize], parts: &[A]) -> A {
                    let mut shape = lead.to_vec();
                    shape.extend_from_slice(cell);
                    let d = match t {
                        'n' => D::N(parts.iter().flat_map(|a| if let D::N(v) = &a.d { v.clone() } else { vec![] }).collect()),
                        'c' => D::C(parts.iter().flat_map(|a| if let D::C(v) = &a.d { v.clone() } else { vec![] }).collect()),
                        _ => D::B(parts.iter().flat_map(|a| if let D::B(v) = &a.d { v.clone() } else { vec![] }).collect()),
                    };
                    A { shape, d }
                }
                let hrows: Vec<A> = rows.iter().map(|i| pool[*i].clone()).collect();
                let h = pack(t, &[hn], &cell, &hrows);
                let x = pack(t, &lead, &cell, &cells);
                vec![h, x]
            }
            "OMember" | "OIndexIn" => {
                let mut hs = self.shape_rank(1, 3);
                if self.r.chance(1, 15) {
                    hs = self.shape();
                }
                let h = self.arr_ty(t, &hs, 0);
                let cell: Vec<usize> = hs.iter().skip(1).copied().collect();
                let lead = self.shape_rank(0, 2);
                let mut xs = lead.clone();
                xs.extend(cell.iter().copied());
                let x = match self.r.below(10) {
                    0..=6 => {
                        let mut x = self.arr_ty(t, &xs, 0);
                        // copy some rows of h into x so that hits occur
                        let csz: usize = cell.iter().product();
                        let hn = h.rows();
                        let cnt: usize = lead.iter().product();
                        if hs.len() >= 1 && hn > 0 && csz > 0 && h.shape == hs && x.shape == xs {
                            for c in 0..cnt {
                                if self.r.chance(1, 2) {
                                    let hr = self.r.below(hn);
                                    match (&mut x.d, &h.d) {
                                        (D::N(xv), D::N(hv)) => xv[c * csz..(c + 1) * csz].clone_from_slice(&hv[hr * csz..(hr + 1) * csz]),
                                        (D::C(xv), D::C(hv)) => xv[c * csz..(c + 1) * csz].clone_from_slice(&hv[hr * csz..(hr + 1) * csz]),
                                        (D::B(xv), D::B(hv)) => xv[c * csz..(c + 1) * csz].clone_from_slice(&hv[hr * csz..(hr + 1) * csz]),
                                        _ => {}
                                    }
                                }
                            }
                        }
                        x
                    }
                    7..=8 => {
                        let s = self.shape();
                        self.arr_ty(t, &s, 0)
                    }
                    _ => self.arr(),
                };
                vec![h, x]
            }
            _ => {
                // find: pattern first (top), searched array second
                let s = self.shape_rank(1, 3);
                let t = self.nc();
                let mut a = self.arr_ty(t, &s, 0);
                if let D::N(v) = &mut a.d {
                    v.iter_mut().for_each(|x| *x = x.rem_euclid(2));
                }
                if let D::C(v) = &mut a.d {
                    v.iter_mut().for_each(|x| *x = 'a' as u32 + (*x % 2));
                }
                let p = match self.r.below(10) {
                    0..=6 => {
                        // a window of a, possibly of lower rank
                        let drop = self.r.below(s.len());
                        let psh: Vec<usize> = s[drop..].iter().map(|d| if *d == 0 { 0 } else { 1 + self.r.below(*d) }).collect();
                        let mut p = self.arr_ty(t, &psh, 0);
                        let total: usize = a.shape.iter().product();
                        if total > 0 {
                            // copy a window starting at a random position
                            let start: Vec<usize> = s.iter().map(|d| self.r.below(*d)).collect();
                            let pn: usize = psh.iter().product();
                            for li in 0..pn {
                                let mut rem = li;
                                let mut idx = vec![0; psh.len()];
                                for ax in (0..psh.len()).rev() {
                                    idx[ax] = rem % psh[ax];
                                    rem /= psh[ax];
                                }
                                let mut off = 0;
                                let mut okk = true;
                                for ax in 0..s.len() {
                                    let o = start[ax] + if ax >= drop { idx[ax - drop] } else { 0 };
                                    if o >= s[ax] {
                                        okk = false;
                                        break;
                                    }
                                    off = off * s[ax] + o;
                                }
                                if okk {
                                    match (&mut p.d, &a.d) {
                                        (D::N(pv), D::N(av)) => pv[li] = av[off],
                                        (D::C(pv), D::C(av)) => pv[li] = av[off],
                                        _ => {}
                                    }
                                }
                            }
                        }
                        p
                    }
                    7..=8 => {
                        let ps = self.shape_rank(0, 3);
                        self.arr_ty(t, &ps, 0)
                    }
                    _ => self.arr(),
                };
                vec![p, a]
            }
        }
    }
}

// ---------------------------------------------------------------- running

fn observe(src: &str, stack_top_first: &[Value]) -> Result<Vec<Value>, String> {
    let args: Vec<Value> = stack_top_first.iter().rev().cloned().collect();
    run_uiua_with(src, &args).map(|mut v| {
        v.reverse();
        v
    })
}

fn compact_stack(tag: &str, st: &[A]) -> String {
    let mut s = format!("{tag} {}", st.len());
    for a in st {
        s.push(' ');
        a.compact(&mut s);
    }
    s
}

fn gen_case(g: &mut Gen) -> Option<Case> {
    let nops = match g.r.below(20) {
        0..=7 => 1,
        8..=12 => 2,
        13..=16 => 3,
        _ => 4,
    };
    let fill = match g.r.below(20) {
        0..=12 => Fill::None,
        13..=17 => Fill::N(*g.r.pick(&[0, 0, 7, -1, 2])),
        _ => Fill::C(*g.r.pick(&['x', '-', 'a']) as u32),
    };
    // first op (stack manipulation is never first)
    let first = g.r.below(OPS.len() - 2);
    let mut init = g.args_for(first);
    if g.r.chance(2, 5) {
        let extra = g.arr();
        init.push(extra);
        if g.r.chance(1, 3) {
            let extra = g.arr();
            init.push(extra);
        }
    }
    let init_vals: Vec<Value> = init.iter().map(|a| a.to_value(&mut g.r)).collect();
    let mut ops: Vec<Op> = Vec::new();
    // the first op: amount ops are sometimes turned into literal form
    if OPS[first].3 == 7 && g.r.chance(1, 2) {
        let aop = first - 38;
        let (ish, v) = g.amts(aop, &init[1].shape, true);
        init.remove(0);
        let init_vals2: Vec<Value> = init_vals[1..].to_vec();
        return finish_case(g, fill, vec![Op::Lit(aop, ish.is_empty(), v)], init, init_vals2, nops);
    }
    ops.push(Op::Plain(first));
    finish_case(g, fill, ops, init, init_vals, nops)
}

fn step_tok(cur: &Option<Vec<Value>>) -> String {
    match cur {
        None => "err".into(),
        Some(vs) => {
            let mut out = Vec::new();
            for v in vs {
                match A::from_value(v) {
                    Some(a) => out.push(a),
                    None => return "skip".into(),
                }
            }
            compact_stack("ok", &out)
        }
    }
}

type Case = (String, String, Option<String>, Vec<String>, Vec<String>);

fn finish_case(g: &mut Gen, fill: Fill, mut ops: Vec<Op>, init: Vec<A>, init_vals: Vec<Value>, nops: usize) -> Option<Case> {
    // guide the choice of the later ops by the intermediate stacks of the real interpreter
    let mut cur: Option<Vec<Value>> = observe(&prog_src(&fill, &ops), &init_vals).ok();
    let mut steps: Vec<String> = vec![step_tok(&cur)];
    while ops.len() < nops {
        let Some(st) = &cur else { break };
        if st.is_empty() {
            break;
        }
        let top = A::from_value(&st[0]);
        let Some(top) = top else { break };
        let mut tries = 0;
        let op = loop {
            tries += 1;
            let i = g.r.below(OPS.len());
            let (_, _, arity, class) = OPS[i];
            if class == 7 {
                if g.r.chance(3, 4) || st.len() < 2 {
                    let aop = i - 38;
                    let (ish, v) = g.amts(aop, &top.shape, true);
                    break Op::Lit(aop, ish.is_empty(), v);
                }
            }
            if OPS[i].0 == "OAmt:AReshape" && top.shape.iter().product::<usize>() > 8 && tries <= 20 {
                continue; // carve-out: no reshape to more than 8 axes
            }
            if arity <= st.len() || tries > 20 {
                // numeric-only ops on non-numeric data are kept rare
                if (class == 3 || class == 4 || class == 2) && top.ty() != 'n' && g.r.chance(4, 5) && tries <= 20 {
                    continue;
                }
                if class == 9 && top.ty() != 'b' && tries <= 20 {
                    continue;
                }
                break Op::Plain(i);
            }
        };
        ops.push(op);
        cur = observe(&prog_src(&fill, &ops[ops.len() - 1..]), st).ok();
        steps.push(step_tok(&cur));
    }
    let src = prog_src(&fill, &ops);
    let res = observe(&src, &init_vals);
    let mut line = fill.tok();
    write!(line, " p {}", ops.len()).unwrap();
    for o in &ops {
        line.push(' ');
        line.push_str(&o.tok());
    }
    line.push(' ');
    line.push_str(&compact_stack("s", &init));
    let err = match res {
        Ok(vs) => {
            let mut out = Vec::new();
            for v in &vs {
                out.push(A::from_value(v)?); // non-integer / complex result: outside the reference's domain
            }
            line.push(' ');
            line.push_str(&compact_stack("ok", &out));
            None
        }
        Err(e) => {
            if e.contains("PANIC") || e.contains("limit") {
                // crashes belong to C09; still reported as an error outcome with its text
            }
            line.push_str(" err");
            Some(e)
        }
    };
    let mut optoks: Vec<String> = ops.iter().map(|o| o.tok()).collect();
    optoks.extend(steps);
    Some((line, src, err, ops.iter().map(|o| o.name()).collect(), optoks))
}

// ---------------------------------------------------------------- compact parser (regression corpus)

struct Tk<'a> {
    t: Vec<&'a str>,
    i: usize,
}
impl<'a> Tk<'a> {
    fn next(&mut self) -> &'a str {
        let x = self.t[self.i];
        self.i += 1;
        x
    }
    fn int(&mut self) -> i64 {
        self.next().parse().expect("integer token")
    }
    fn arr(&mut self) -> A {
        assert_eq!(self.next(), "a");
        let ty = self.next();
        let rank = self.int() as usize;
        let shape: Vec<usize> = (0..rank).map(|_| self.int() as usize).collect();
        let n: usize = shape.iter().product();
        let d = match ty {
            "n" => D::N((0..n).map(|_| self.int()).collect()),
            "c" => D::C((0..n).map(|_| self.int() as u32).collect()),
            _ => D::B((0..n).map(|_| self.arr()).collect()),
        };
        A { shape, d }
    }
}

/// "fill prog stack" (the head of a compact case; a trailing result is ignored)
fn parse_head(line: &str) -> (Fill, Vec<Op>, Vec<A>) {
    let mut tk = Tk { t: line.split_whitespace().collect(), i: 0 };
    let fill = match tk.next() {
        "f0" => Fill::None,
        _ => {
            let t = tk.next();
            let v = tk.int();
            if t == "n" { Fill::N(v) } else { Fill::C(v as u32) }
        }
    };
    assert_eq!(tk.next(), "p");
    let k = tk.int();
    let mut ops = Vec::new();
    for _ in 0..k {
        let o = tk.next();
        if o == "OLit" {
            let a = tk.next();
            let ai = AOPS.iter().position(|x| x.0 == a).expect("aop");
            let sc = tk.next() == "1";
            let m = tk.int();
            let amts = (0..m)
                .map(|_| match tk.next() {
                    "inf" => Amt::Inf(false),
                    "ninf" => Amt::Inf(true),
                    "frac" => Amt::Frac(1.5),
                    "nan" => Amt::NaN,
                    s => Amt::I(s[1..].parse().expect("amount")),
                })
                .collect();
            ops.push(Op::Lit(ai, sc, amts));
        } else {
            ops.push(Op::Plain(OPS.iter().position(|x| x.0 == o).expect("op")));
        }
    }
    assert_eq!(tk.next(), "s");
    let k = tk.int();
    let stack = (0..k).map(|_| tk.arr()).collect();
    (fill, ops, stack)
}

fn print_case(c: &Case) {
    let (line, src, err, ops, steps) = c;
    // "steps": the op tokens followed by the observed stack after each single op
    println!(
        "{{\"line\":{},\"src\":{},\"err\":{},\"ops\":[{}],\"first\":{},\"steps\":[{}]}}",
        jstr(line),
        jstr(src),
        err.as_deref().map(jstr).unwrap_or("null".into()),
        ops.iter().map(|o| jstr(o)).collect::<Vec<_>>().join(","),
        jstr(&ops[0]),
        steps.iter().map(|o| jstr(o)).collect::<Vec<_>>().join(",")
    );
}

/// replay corpus lines ("num|byte <fill prog stack>"); every step is observed like a generated case
fn replay(g: &mut Gen, text: &str, loud: bool) -> usize {
    let mut n = 0;
    for l in text.lines() {
        let l = l.trim();
        if l.is_empty() || l.starts_with('#') {
            continue;
        }
        let (st, head) = l.split_once(' ').unwrap();
        let (fill, ops, init) = parse_head(head);
        let vals: Vec<Value> = init.iter().map(|a| a.to_value_storage(st == "byte")).collect();
        if loud {
            // no panic hook replacement: the panic message and location go to stderr
            let mut env = uiua::Uiua::with_safe_sys();
            for a in vals.iter().rev() {
                env.push(a.clone());
            }
            let r = env.run_str(&prog_src(&fill, &ops));
            eprintln!("{} -> {:?}", prog_src(&fill, &ops), r.map(|_| env.take_stack()).map_err(|e| e.to_string()));
            continue;
        }
        // single steps first (for localisation), then the whole program
        let k = ops.len();
        let mut steps = Vec::new();
        let mut cur: Option<Vec<Value>> = Some(vals.clone());
        for j in 0..k {
            cur = match &cur {
                Some(stv) => observe(&prog_src(&fill, &ops[j..j + 1]), stv).ok(),
                None => None,
            };
            steps.push(step_tok(&cur));
            if cur.is_none() {
                break;
            }
        }
        if let Some(mut c) = finish_case(g, fill, ops, init, vals, k) {
            let kk = c.3.len();
            c.4.truncate(kk);
            c.4.extend(steps);
            print_case(&c);
            n += 1;
        }
    }
    n
}

fn main() {
    let args: Vec<String> = std::env::args().collect();
    let mode = args.get(1).map(|s| s.as_str()).unwrap_or("tie");
    let seed = seed_from_env();
    match mode {
        "tie" => {
            let n: usize = args.get(2).and_then(|s| s.parse().ok()).unwrap_or(100);
            let mut g = Gen { r: Rng::new(seed ^ 0xC08), shape_ctr: 0, all_shapes: all_shapes() };
            let mut emitted = 0;
            let mut rejected = 0usize;
            // the regression corpus (former failing inputs) is replayed first
            let corpus = args.get(3).map(|p| std::fs::read_to_string(p).expect("corpus file")).unwrap_or_default();
            let replayed = replay(&mut g, &corpus, false);
            while emitted < n {
                match gen_case(&mut g) {
                    Some(c) => {
                        print_case(&c);
                        emitted += 1;
                    }
                    None => rejected += 1,
                }
            }
            println!("{{\"rejected\":{rejected},\"corpus\":{replayed},\"shapes_swept\":{}}}", g.shape_ctr.min(g.all_shapes.len()));
        }
        "run" => {
            // c08 run [loud] < corpus lines
            let mut text = String::new();
            std::io::Read::read_to_string(&mut std::io::stdin(), &mut text).unwrap();
            let mut g = Gen { r: Rng::new(seed ^ 0xC08), shape_ctr: 0, all_shapes: all_shapes() };
            replay(&mut g, &text, args.get(2).map(|s| s == "loud").unwrap_or(false));
        }
        _ => {
            eprintln!("usage: c08 tie N [corpus-file] | c08 run [loud] < corpus-lines");
            std::process::exit(2);
        }
    }
}
