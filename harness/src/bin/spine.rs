//! Spine exporter: compile programs and print their IR as Gallina terms.
//!   spine show 'program'
use uvh::*;

fn main() {
    let mode = std::env::args().nth(1).unwrap_or_default();
    match mode.as_str() {
        "show" => {
            let src = std::env::args().nth(2).unwrap_or_default();
            match compile(&src, uiua::PreEvalMode::Lazy) {
                Ok(asm) => {
                    let mut ex = Export::new();
                    println!("root: {}", ex.node(&asm.root));
                    println!("rust sig: {:?}", asm.root.sig().map(coq_sig));
                    for (i, f) in asm.functions.iter().enumerate() {
                        println!("fn {i}: {}   sig {:?}", ex.node(f), f.sig().map(coq_sig));
                    }
                    println!("opaque {} nodes {} kinds {:?}", ex.opaque, ex.nodes, ex.kinds);
                }
                Err(e) => println!("compile error: {e}"),
            }
        }
        _ => eprintln!("usage"),
    }
}
