//! C15: equality / ordering / hashing consistency.
//!   c15 tie N      -> JSON lines: pairs with the implementation's eq, cmp, hash feed
//!   c15 search N   -> JSON lines: law violations found on the implementation
use std::cmp::Ordering;
use std::hash::Hash;

use uiua::Value;
use uvh::*;

fn feed(v: &Value) -> Vec<(u32, u64)> {
    let mut h = RecHasher::default();
    v.hash(&mut h);
    h.0
}

fn ord_i(o: Ordering) -> i32 {
    match o {
        Ordering::Less => -1,
        Ordering::Equal => 0,
        Ordering::Greater => 1,
    }
}

fn cfg() -> GenCfg {
    GenCfg { max_rank: 3, max_dim: 3, box_depth: 2, ..Default::default() }
}

/// fixed corpus: pairs/triples that exposed defects before
fn corpus() -> Vec<Value> {
    let nan = f64::NAN;
    vec![
        boxes(&[], vec![num(&[1, 4], &[1., 2., 3., 4.])]),
        boxes(&[], vec![num(&[2, 1], &[1., 2.])]),
        boxes(&[], vec![num(&[2, 2], &[1., 2., 0., 0.])]),
        num(&[1, 4], &[1., 2., 3., 4.]),
        num(&[2, 1], &[1., 2.]),
        num(&[2, 2], &[1., 2., 0., 0.]),
        cplx(&[], &[uiua::Complex::new(nan, 1.0)]),
        cplx(&[], &[uiua::Complex::new(nan, 2.0)]),
        cplx(&[], &[uiua::Complex::new(1.0, nan)]),
        cplx(&[], &[uiua::Complex::new(2.0, nan)]),
        cplx(&[], &[uiua::Complex::new(nan, nan)]),
        cplx(&[], &[uiua::Complex::new(1.0, 5.0)]),
        // equal values that differ in the sign of a zero part or in the NaN they carry
        cplx(&[], &[uiua::Complex::new(1.0, 0.0)]),
        cplx(&[], &[uiua::Complex::new(1.0, -0.0)]),
        cplx(&[], &[uiua::Complex::new(0.0, 1.0)]),
        cplx(&[], &[uiua::Complex::new(-0.0, 1.0)]),
        cplx(&[], &[uiua::Complex::new(0.0, 0.0)]),
        cplx(&[], &[uiua::Complex::new(-0.0, -0.0)]),
        cplx(&[2], &[uiua::Complex::new(0.0, -0.0), uiua::Complex::new(-0.0, 2.0)]),
        cplx(&[2], &[uiua::Complex::new(-0.0, 0.0), uiua::Complex::new(0.0, 2.0)]),
        cplx(&[], &[uiua::Complex::new(f64::from_bits(0x7ff8_0000_0000_0005), 1.0)]),
        cplx(&[], &[uiua::Complex::new(-nan, 1.0)]),
        num(&[], &[f64::from_bits(0x7ff8_0000_0000_0005)]),
        num(&[], &[-nan]),
        num(&[2], &[0.0, -0.0]),
        num(&[2], &[-0.0, 0.0]),
        boxes(&[], vec![cplx(&[], &[uiua::Complex::new(1.0, -0.0)])]),
        boxes(&[], vec![cplx(&[], &[uiua::Complex::new(1.0, 0.0)])]),
        boxes(&[], vec![num(&[], &[-0.0])]),
        boxes(&[], vec![byte(&[], &[0])]),
        num(&[], &[nan]),
        num(&[], &[0.0]),
        num(&[], &[-0.0]),
        byte(&[], &[0]),
        num(&[0], &[]),
        byte(&[0], &[]),
        chars(&[0], &[]),
        boxes(&[0], vec![]),
        num(&[0, 2], &[]),
        num(&[2, 0], &[]),
    ]
}

fn gen_pool(r: &mut Rng, n: usize) -> Vec<Value> {
    let c = cfg();
    let mut pool = corpus();
    while pool.len() < n {
        let v = if !pool.is_empty() && r.chance(1, 2) {
            let base = pool[r.below(pool.len())].clone();
            mutate_value(r, &c, &base)
        } else {
            gen_value(r, &c, 0)
        };
        pool.push(v);
    }
    pool
}

fn main() {
    let mode = std::env::args().nth(1).unwrap_or_default();
    let n: usize = std::env::args().nth(2).and_then(|s| s.parse().ok()).unwrap_or(100);
    let mut r = Rng::new(seed_from_env());
    match mode.as_str() {
        "tie" => {
            let pool = gen_pool(&mut r, (n / 4).max(40));
            let cl = corpus().len();
            let mut k = 0;
            // all corpus pairs first
            let mut pairs: Vec<(usize, usize)> = Vec::new();
            for i in 0..cl {
                for j in 0..cl {
                    pairs.push((i, j));
                }
            }
            while pairs.len() < n.max(cl * cl) {
                let i = r.below(pool.len());
                let j = if r.chance(1, 8) { i } else { r.below(pool.len()) };
                pairs.push((i, j));
            }
            for (i, j) in pairs {
                let (a, b) = (&pool[i], &pool[j]);
                println!(
                    "{{\"i\":{k},\"a\":{},\"b\":{},\"eq\":{},\"cmp\":{},\"ha\":{},\"hb\":{},\"show_a\":{},\"show_b\":{}}}",
                    jstr(&coq_value(a)),
                    jstr(&coq_value(b)),
                    a == b,
                    ord_i(a.cmp(b)),
                    jstr(&coq_pairs(&feed(a))),
                    jstr(&coq_pairs(&feed(b))),
                    jstr(&format!("{a:?}")),
                    jstr(&format!("{b:?}"))
                );
                k += 1;
            }
        }
        "search" => {
            let pool = gen_pool(&mut r, 60 + n / 50);
            let m = pool.len();
            let mut evals = 0usize;
            let report = |law: &str, vs: &[&Value], detail: String| {
                let class = classify(vs);
                println!(
                    "{{\"violation\":{},\"class\":{},\"values\":[{}],\"detail\":{}}}",
                    jstr(law),
                    jstr(&class),
                    vs.iter().map(|v| jstr(&format!("{:?} shape {:?} type {}", v, v.shape, v.type_name()))).collect::<Vec<_>>().join(","),
                    jstr(&detail)
                );
            };
            // pairwise laws (exhaustive over the pool)
            for i in 0..m {
                let a = &pool[i];
                if !(a == a) {
                    report("eq_refl", &[a], String::new());
                }
                if a.cmp(a) != Ordering::Equal {
                    report("cmp_refl", &[a], String::new());
                }
                for j in 0..m {
                    let b = &pool[j];
                    evals += 1;
                    let e = a == b;
                    let c = a.cmp(b);
                    if e != (b == a) {
                        report("eq_sym", &[a, b], String::new());
                    }
                    if c != b.cmp(a).reverse() {
                        report("cmp_antisym", &[a, b], format!("{c:?} vs {:?}", b.cmp(a)));
                    }
                    if e != (c == Ordering::Equal) {
                        report("cmp_eq_iff", &[a, b], format!("eq={e} cmp={c:?}"));
                    }
                    if e && feed(a) != feed(b) {
                        report("eq_hash", &[a, b], String::new());
                    }
                }
            }
            // triples: transitivity
            let le = |a: &Value, b: &Value| a.cmp(b) != Ordering::Greater;
            let mut t = 0;
            while t < n {
                let (i, j, k) = (r.below(m), r.below(m), r.below(m));
                let (a, b, c) = (&pool[i], &pool[j], &pool[k]);
                t += 1;
                evals += 1;
                if a == b && b == c && !(a == c) {
                    report("eq_trans", &[a, b, c], String::new());
                }
                if le(a, b) && le(b, c) && !le(a, c) {
                    report("cmp_trans", &[a, b, c], String::new());
                }
            }
            // exhaustive transitivity over the fixed corpus
            let cp = corpus();
            for a in &cp {
                for b in &cp {
                    for c in &cp {
                        evals += 1;
                        if le(a, b) && le(b, c) && !le(a, c) {
                            report("cmp_trans", &[a, b, c], String::new());
                        }
                        if a == b && b == c && !(a == c) {
                            report("eq_trans", &[a, b, c], String::new());
                        }
                    }
                }
            }
            // primitives against a spec computed from pairwise == and cmp
            let rounds = (n / 20).max(20);
            for round in 0..rounds {
                // every fourth round: a long list over few distinct values (many ties; sorting
                // algorithms switch strategy above ~20 elements)
                let (len, span) = if round % 4 == 3 { (21 + r.below(60), 2 + r.below(4)) } else { (1 + r.below(7), m) };
                let base = r.below(m);
                let items: Vec<Value> = (0..len).map(|_| pool[(base + r.below(span)) % m].clone()).collect();
                evals += 1;
                let list = boxes(&[len], items.clone());
                prim_checks(&list, &items, &report);
            }
            println!("{{\"evaluations\":{evals},\"pool\":{m}}}");
        }
        _ => eprintln!("usage: c15 tie|search N"),
    }
}

fn has_cplx_nan(v: &Value) -> bool {
    match v {
        Value::Complex(a) => a.elements().any(|c| c.re.is_nan() || c.im.is_nan()),
        Value::Box(a) => a.elements().any(|b| has_cplx_nan(&b.0)),
        _ => false,
    }
}

/// value-class key used to match known findings
fn classify(vs: &[&Value]) -> String {
    if vs.iter().any(|v| has_cplx_nan(v)) {
        "complex-nan".into()
    } else {
        "general".into()
    }
}

fn nums_of(v: &Value) -> Vec<i64> {
    match v {
        Value::Num(a) => a.elements().map(|x| *x as i64).collect(),
        Value::Byte(a) => a.elements().map(|x| *x as i64).collect(),
        _ => vec![],
    }
}

fn prim_checks(list: &Value, items: &[Value], report: &dyn Fn(&str, &[&Value], String)) {
    let n = items.len();
    // classify: ⊛
    if let Ok(st) = run_uiua_with("⊛", &[list.clone()]) {
        let got = nums_of(&st[0]);
        let mut reps: Vec<usize> = Vec::new();
        let mut want = Vec::new();
        for i in 0..n {
            let mut c = None;
            for (ci, &rep) in reps.iter().enumerate() {
                if items[rep] == items[i] {
                    c = Some(ci);
                    break;
                }
            }
            let ci = c.unwrap_or_else(|| {
                reps.push(i);
                reps.len() - 1
            });
            want.push(ci as i64);
        }
        if got != want {
            report("classify_spec", &items.iter().collect::<Vec<_>>(), format!("got {got:?} want {want:?}"));
        }
    }
    // deduplicate ◴: first occurrences
    if let Ok(st) = run_uiua_with("◴", &[list.clone()]) {
        let mut firsts: Vec<Value> = Vec::new();
        for it in items {
            if !firsts.iter().any(|f| f == it) {
                firsts.push(it.clone());
            }
        }
        let want = boxes(&[firsts.len()], firsts);
        if st[0] != want {
            report("dedup_spec", &items.iter().collect::<Vec<_>>(), format!("got {:?}", st[0]));
        }
    }
    // member ∊ / index-in ⊗ of the list in itself reversed
    let rev: Vec<Value> = items.iter().rev().cloned().collect();
    let hay = boxes(&[n / 2 + 1], rev[..n / 2 + 1].to_vec());
    if let Ok(st) = run_uiua_with("∊", &[hay.clone(), list.clone()]) {
        // ∊ needle haystack? In uiua: `∊ a b` checks members of a in b with a on top.
        let got = nums_of(&st[0]);
        let want: Vec<i64> = items.iter().map(|it| rev[..n / 2 + 1].iter().any(|h| h == it) as i64).collect();
        let want2: Vec<i64> = rev[..n / 2 + 1].iter().map(|it| items.iter().any(|h| h == it) as i64).collect();
        if got != want && got != want2 {
            report("member_spec", &items.iter().collect::<Vec<_>>(), format!("got {got:?} want {want:?}"));
        }
    }
    if let Ok(st) = run_uiua_with("⊗", &[hay.clone(), list.clone()]) {
        let got = nums_of(&st[0]);
        let h = &rev[..n / 2 + 1];
        let want: Vec<i64> = items.iter().map(|it| h.iter().position(|x| x == it).unwrap_or(h.len()) as i64).collect();
        let want2: Vec<i64> = h.iter().map(|it| items.iter().position(|x| x == it).unwrap_or(items.len()) as i64).collect();
        if got != want && got != want2 {
            report("indexin_spec", &items.iter().collect::<Vec<_>>(), format!("got {got:?} want {want:?}"));
        }
    }
    // rise ⍏ : stable sorting permutation
    if let Ok(st) = run_uiua_with("⍏", &[list.clone()]) {
        let got = nums_of(&st[0]);
        let mut idx: Vec<usize> = (0..n).collect();
        idx.sort_by(|&i, &j| items[i].cmp(&items[j]));
        let want: Vec<i64> = idx.iter().map(|&i| i as i64).collect();
        let mut sorted_ok = got.len() == n;
        let mut seen = vec![false; n];
        for &g in &got {
            if g < 0 || g as usize >= n || seen[g as usize] {
                sorted_ok = false;
                break;
            }
            seen[g as usize] = true;
        }
        if sorted_ok {
            for w in got.windows(2) {
                let (a, b) = (&items[w[0] as usize], &items[w[1] as usize]);
                let c = a.cmp(b);
                if c == Ordering::Greater || (c == Ordering::Equal && w[0] > w[1]) {
                    sorted_ok = false;
                }
            }
        }
        if !sorted_ok {
            report("rise_spec", &items.iter().collect::<Vec<_>>(), format!("got {got:?} stable-sort {want:?}"));
        }
    }
    // fall ⍖
    if let Ok(st) = run_uiua_with("⍖", &[list.clone()]) {
        let got = nums_of(&st[0]);
        let mut ok = got.len() == n;
        if ok {
            for w in got.windows(2) {
                if w[0] < 0 || w[1] < 0 || w[0] as usize >= n || w[1] as usize >= n {
                    ok = false;
                    break;
                }
                let (a, b) = (&items[w[0] as usize], &items[w[1] as usize]);
                let c = a.cmp(b);
                if c == Ordering::Less || (c == Ordering::Equal && w[0] > w[1]) {
                    ok = false;
                }
            }
        }
        if !ok {
            report("fall_spec", &items.iter().collect::<Vec<_>>(), format!("got {got:?}"));
        }
    }
    // sort ⍆ equals select by rise
    if let (Ok(a), Ok(b)) = (run_uiua_with("⍆", &[list.clone()]), run_uiua_with("⊏⊸⍏", &[list.clone()])) {
        if a[0] != b[0] {
            report("sort_eq_select_rise", &items.iter().collect::<Vec<_>>(), format!("sort {:?} vs {:?}", a[0], b[0]));
        }
    }
}
