//! C19: every reported source position lies inside the source and is self-consistent.
//!   c19 tie N       -> JSON lines: short inputs with the lexer's segmentation and every reported span
//!   c19 search N    -> JSON lines: violations of the functional monitor on N inputs (+ big-input corpus)
//!   c19 probe       -> reads one input from stdin, prints every span and every violation (debugging / replay)
//!
//! The monitor recomputes (char_pos, line, col) of every reported byte offset from the byte
//! prefix of the text, independently of the lexer:
//!   line     = 1 + number of '\n' before the offset
//!   col      = 1 + number of chars other than '\r' since the last '\n'
//!   char_pos = number of lexer segments (extended grapheme clusters, with the " ", "\"", "@"
//!              prefix split of Lexer::new) that end at or before the offset; the offset must be
//!              a segment boundary
use std::collections::BTreeMap;
use std::fmt::Write as _;
use std::sync::atomic::{AtomicU64, Ordering};
use std::sync::{Arc, Mutex};

use uiua::format::{FormatConfig, format_str};
use uiua::{CodeSpan, Compiler, InputSrc, Inputs, Loc, PreEvalMode, Primitive, SafeSys, Span, Spans, UiuaError, UiuaErrorKind};
use unicode_segmentation::UnicodeSegmentation;
use uvh::*;

// ---------------------------------------------------------------- segmentation (as Lexer::new, lex.rs:909-926)

fn segments(input: &str) -> Vec<&str> {
    let mut segs: Vec<&str> = input.graphemes(true).collect();
    let mut i = 0;
    while i < segs.len() {
        for pre in [" ", "\"", "@"] {
            if let Some(rest) = segs[i].strip_prefix(pre) {
                segs[i] = pre;
                if !rest.is_empty() {
                    segs.insert(i + 1, rest);
                    i += 1;
                }
                break;
            }
        }
        i += 1;
    }
    segs
}

/// char classes of the model: 0 newline, 1 cr, 2 other whitespace, 3 other
fn class_of(c: char) -> u8 {
    match c {
        '\n' => 0,
        '\r' => 1,
        c if c.is_whitespace() => 2,
        _ => 3,
    }
}

// ---------------------------------------------------------------- spans

#[derive(Clone, Debug)]
struct Rec {
    kind: &'static str,
    what: String,
    s: Loc,
    e: Loc,
}

fn rec(kind: &'static str, what: impl Into<String>, sp: &CodeSpan) -> Rec {
    Rec { kind, what: what.into(), s: sp.start, e: sp.end }
}

fn trunc(mut s: String, n: usize) -> String {
    if s.len() > n {
        let mut k = n;
        while !s.is_char_boundary(k) {
            k -= 1;
        }
        s.truncate(k);
    }
    s
}

fn is_str0(sp: &CodeSpan) -> bool {
    matches!(sp.src, InputSrc::Str(0))
}

/// every CodeSpan inside a serialised AST: CodeSpan serialises as [src, [line,col,byte,char], [line,col,byte,char]]
fn json_spans(v: &serde_json::Value, out: &mut Vec<(Loc, Loc)>) {
    fn loc(v: &serde_json::Value) -> Option<Loc> {
        let a = v.as_array()?;
        if a.len() != 4 {
            return None;
        }
        let n: Vec<u64> = a.iter().map(|x| x.as_u64()).collect::<Option<_>>()?;
        Some(Loc { line: n[0] as u16, col: n[1] as u16, byte_pos: n[2] as u32, char_pos: n[3] as u32 })
    }
    match v {
        serde_json::Value::Array(a) => {
            if a.len() == 3 && a[0].as_u64() == Some(0) {
                if let (Some(s), Some(e)) = (loc(&a[1]), loc(&a[2])) {
                    out.push((s, e));
                    return;
                }
            }
            for x in a {
                json_spans(x, out);
            }
        }
        serde_json::Value::Object(m) => {
            for x in m.values() {
                json_spans(x, out);
            }
        }
        _ => {}
    }
}

type Sp2 = (Loc, Loc);

fn as_span(v: &serde_json::Value) -> Option<Sp2> {
    let mut o = Vec::new();
    if let serde_json::Value::Array(a) = v {
        if a.len() == 3 && a[0].as_u64() == Some(0) {
            json_spans(v, &mut o);
        }
    }
    if o.len() == 1 { Some(o[0]) } else { None }
}

/// the span tree of a serialised AST.  A spanned node `Sp { value, span }` serialises as [value, span]:
/// its children are the nearest spans inside `value`.  `contains`: (node span, children spans);
/// `merges`: for strands and modified words (parse.rs:1127-1131, 1198-1202: span = first.merge(last))
/// (kind, node span, spans of the items / of the modifier and its operands).
fn span_tree(v: &serde_json::Value, kids: &mut Vec<Sp2>, contains: &mut Vec<(Sp2, Vec<Sp2>)>, merges: &mut Vec<(&'static str, Sp2, Vec<Sp2>)>) {
    if let Some(sp) = as_span(v) {
        kids.push(sp);
        return;
    }
    match v {
        serde_json::Value::Array(a) => {
            if a.len() == 2 && as_span(&a[0]).is_none() {
                if let Some(sp) = as_span(&a[1]) {
                    kids.push(sp);
                    let mut mine = Vec::new();
                    span_tree(&a[0], &mut mine, contains, merges);
                    // only words and modifiers (serialised with a "type" tag): the span of a module node is
                    // its opening delimiter alone (parse.rs: Sp<ScopedModule> = open_span), a choice of span
                    // (likewise an array / function pack does not include its leading `↓`): containment is checked for
                    // the words whose span the parser builds by merging its parts
                    if !mine.is_empty() && matches!(a[0].get("type").and_then(|t| t.as_str()), Some("Modified" | "Strand" | "Subscripted")) {
                        contains.push((sp, mine));
                    }
                    let direct = |x: &serde_json::Value| x.as_array().filter(|p| p.len() == 2).and_then(|p| as_span(&p[1]));
                    match (a[0].get("type").and_then(|t| t.as_str()), a[0].get("value")) {
                        (Some("Strand"), Some(serde_json::Value::Array(items))) => {
                            let ch: Vec<Sp2> = items.iter().filter_map(direct).collect();
                            if ch.len() == items.len() && !ch.is_empty() {
                                merges.push(("strand", sp, ch));
                            }
                        }
                        (Some("Modified"), Some(m)) => {
                            let mut ch: Vec<Sp2> = m.get("modifier").and_then(direct).into_iter().collect();
                            if let Some(serde_json::Value::Array(ops)) = m.get("operands") {
                                ch.extend(ops.iter().filter_map(direct));
                            }
                            if !ch.is_empty() {
                                merges.push(("modified", sp, ch));
                            }
                        }
                        _ => {}
                    }
                    return;
                }
            }
            for x in a {
                span_tree(x, kids, contains, merges);
            }
        }
        serde_json::Value::Object(m) => {
            for x in m.values() {
                span_tree(x, kids, contains, merges);
            }
        }
        _ => {}
    }
}

fn err_spans(e: &UiuaError, kind: &'static str, out: &mut Vec<Rec>) {
    let mut push = |what: &str, sp: &Span| {
        if let Span::Code(cs) = sp {
            if is_str0(cs) {
                out.push(rec(kind, what, cs));
            }
        }
    };
    match &*e.kind {
        UiuaErrorKind::Parse(errs, _) => {
            for pe in errs {
                if is_str0(&pe.span) {
                    push("parse", &Span::Code(pe.span.clone()));
                }
            }
        }
        UiuaErrorKind::Run { message, info, .. } => {
            push("run", &message.span);
            for i in info {
                push("run-info", &i.span);
            }
        }
        UiuaErrorKind::Throw(_, sp, _) => push("throw", sp),
        UiuaErrorKind::Timeout(sp, _) => push("timeout", sp),
        _ => {}
    }
    for f in &e.meta.trace {
        push("trace", &f.span);
    }
    for (_, sp) in &e.meta.infos {
        if let Some(sp) = sp {
            push("info", sp);
        }
    }
    for m in &e.meta.multi {
        err_spans(m, kind, out);
    }
}

struct Collected {
    recs: Vec<Rec>,
    /// glyph-map positions in the formatter's OUTPUT text: (output, (start,end))
    fmt_out: Option<(String, Vec<(Loc, Loc)>)>,
    panics: Vec<(String, String)>,
    ntok: usize,
    nlexerr: usize,
    contains: Vec<(Sp2, Vec<Sp2>)>,
    merges: Vec<(&'static str, Sp2, Vec<Sp2>)>,
}

fn collect(src: &str, full: bool) -> Collected {
    let mut c = Collected { recs: Vec::new(), fmt_out: None, panics: Vec::new(), ntok: 0, nlexerr: 0, contains: Vec::new(), merges: Vec::new() };
    if std::env::var("C19_ONLY").as_deref() == Ok("format") {
        collect_format(src, &mut c);
        return c;
    }
    // lexer
    match catch(|| uiua::lex(src, (), &mut Inputs::default())) {
        Ok((toks, errs, _)) => {
            c.ntok = toks.len();
            c.nlexerr = errs.len();
            for t in &toks {
                c.recs.push(rec("tok", trunc(format!("{:?}", t.value), 40), &t.span));
            }
            for e in &errs {
                c.recs.push(rec("lexerr", format!("{}", e.value), &e.span));
            }
        }
        Err(p) => c.panics.push(("lex".into(), p)),
    }
    // parser: AST, errors, diagnostics
    match catch(|| uiua::parse(src, (), &mut Inputs::default())) {
        Ok((items, errs, diags)) => {
            let mut sp = Vec::new();
            if let Ok(v) = serde_json::to_value(&items) {
                json_spans(&v, &mut sp);
                let mut top = Vec::new();
                span_tree(&v, &mut top, &mut c.contains, &mut c.merges);
            }
            for (s, e) in sp {
                c.recs.push(Rec { kind: "ast", what: String::new(), s, e });
            }
            for e in &errs {
                c.recs.push(rec("parseerr", trunc(format!("{}", e.value), 40), &e.span));
            }
            for d in &diags {
                if let Span::Code(cs) = &d.span {
                    if is_str0(cs) {
                        c.recs.push(rec("parsediag", "", cs));
                    }
                }
            }
        }
        Err(p) => c.panics.push(("parse".into(), p)),
    }
    if !full {
        return c;
    }
    // compiler errors and diagnostics (as the language server obtains them, lsp.rs:295-311)
    match catch(|| {
        let mut comp = Compiler::with_backend(SafeSys::default());
        comp.pre_eval_mode(PreEvalMode::Lsp);
        let res = comp.load_str(src).map(|_| ());
        let diags = comp.take_diagnostics();
        (res, diags)
    }) {
        Ok((res, diags)) => {
            if let Err(e) = res {
                err_spans(&e, "comperr", &mut c.recs);
            }
            for d in &diags {
                if let Span::Code(cs) = &d.span {
                    if is_str0(cs) {
                        c.recs.push(rec("compdiag", "", cs));
                    }
                }
            }
        }
        Err(p) => c.panics.push(("compile".into(), p)),
    }
    // language-server highlight spans
    match catch(|| Spans::from_input(src)) {
        Ok(sp) => {
            for s in &sp.spans {
                if is_str0(&s.span) {
                    c.recs.push(rec("lsp", trunc(format!("{:?}", s.value), 24), &s.span));
                }
            }
        }
        Err(p) => c.panics.push(("lsp".into(), p)),
    }
    collect_format(src, &mut c);
    c
}

/// formatter glyph map (source side into recs, output side into fmt_out)
fn collect_format(src: &str, c: &mut Collected) {
    match catch(|| format_str(src, &FormatConfig::default())) {
        Ok(Ok(out)) => {
            let mut outs = Vec::new();
            for (sp, (a, b)) in &out.glyph_map {
                if is_str0(sp) {
                    c.recs.push(rec("gmap", "", sp));
                }
                outs.push((*a, *b));
            }
            c.fmt_out = Some((out.output.clone(), outs));
        }
        Ok(Err(e)) => err_spans(&e, "fmterr", &mut c.recs),
        Err(p) => c.panics.push(("format".into(), p)),
    }
}

// ---------------------------------------------------------------- the functional monitor

struct Table<'a> {
    src: &'a str,
    /// byte offset of every segment boundary (first = 0, last = len)
    bounds: Vec<usize>,
}

impl<'a> Table<'a> {
    fn new(src: &'a str) -> Self {
        let mut bounds = vec![0usize];
        let mut b = 0;
        for s in segments(src) {
            b += s.len();
            bounds.push(b);
        }
        Table { src, bounds }
    }
    /// expected (char_pos, line, col) of byte offset b, unsaturated; None if outside / not a char boundary
    fn expect(&self, b: usize) -> Option<(Option<usize>, usize, usize)> {
        if b > self.src.len() || !self.src.is_char_boundary(b) {
            return None;
        }
        let pre = &self.src[..b];
        let line = 1 + pre.bytes().filter(|&c| c == b'\n').count();
        let tail = match pre.rfind('\n') {
            Some(i) => &pre[i + 1..],
            None => pre,
        };
        let col = 1 + tail.chars().filter(|&c| c != '\r').count();
        let cp = self.bounds.binary_search(&b).ok();
        Some((cp, line, col))
    }
}

#[derive(Clone, Debug)]
struct Viol {
    key: String,
    kind: &'static str,
    detail: String,
}

fn loc_str(l: &Loc) -> String {
    format!("(byte {}, char {}, {}:{})", l.byte_pos, l.char_pos, l.line, l.col)
}

fn check_loc(t: &Table, kind: &'static str, which: &str, l: &Loc, out: &mut Vec<Viol>) {
    let b = l.byte_pos as usize;
    match t.expect(b) {
        None => out.push(Viol {
            key: format!("{kind}/{}", if b > t.src.len() { "out-of-bounds" } else { "not-char-boundary" }),
            kind,
            detail: format!("{which} {} of text with {} bytes", loc_str(l), t.src.len()),
        }),
        Some((cp, line, col)) => {
            let sat = |x: usize| x.min(65535);
            if cp.is_none() {
                out.push(Viol { key: format!("{kind}/not-segment-boundary"), kind, detail: format!("{which} {}", loc_str(l)) });
            } else if cp != Some(l.char_pos as usize) {
                out.push(Viol { key: format!("{kind}/char_pos"), kind, detail: format!("{which} {} expected char_pos {}", loc_str(l), cp.unwrap()) });
            }
            if l.line as usize != line || l.col as usize != col {
                if l.line as usize == sat(line) && l.col as usize == sat(col) {
                    out.push(Viol {
                        key: "loc-u16-saturation".into(),
                        kind,
                        detail: format!("{which} {} true position {line}:{col}", loc_str(l)),
                    });
                } else {
                    out.push(Viol { key: format!("{kind}/line-col"), kind, detail: format!("{which} {} expected {line}:{col}", loc_str(l)) });
                }
            }
        }
    }
}

fn monitor(src: &str, c: &Collected) -> Vec<Viol> {
    let t = Table::new(src);
    let mut v = Vec::new();
    for (w, p) in &c.panics {
        v.push(Viol { key: format!("panic/{w}"), kind: "panic", detail: p.chars().take(200).collect() });
    }
    for r in &c.recs {
        let n0 = v.len();
        check_loc(&t, r.kind, "start", &r.s, &mut v);
        check_loc(&t, r.kind, "end", &r.e, &mut v);
        if r.s.byte_pos > r.e.byte_pos || r.s.char_pos > r.e.char_pos {
            v.push(Viol { key: format!("{}/start-after-end", r.kind), kind: r.kind, detail: format!("{} .. {}", loc_str(&r.s), loc_str(&r.e)) });
        }
        let (a, b) = (r.s.byte_pos as usize, r.e.byte_pos as usize);
        if catch(|| src[a..b].len()).is_err() && v.len() == n0 {
            v.push(Viol { key: format!("{}/slice-panics", r.kind), kind: r.kind, detail: format!("{a}..{b}") });
        }
        if v.len() > n0 {
            let what = format!(" [{} {}]", r.kind, r.what);
            for x in &mut v[n0..] {
                x.detail.push_str(&what);
            }
        }
    }
    // the parser's span tree: a node's span contains its children's spans; the span of a strand / modified
    // word is the merge (derived Ord of Loc: line, col, byte_pos, char_pos) of its parts
    let lk = |l: &Loc| (l.line, l.col, l.byte_pos, l.char_pos);
    for (p, kids) in &c.contains {
        for k in kids {
            if !(p.0.byte_pos <= k.0.byte_pos && k.1.byte_pos <= p.1.byte_pos && p.0.char_pos <= k.0.char_pos && k.1.char_pos <= p.1.char_pos) {
                v.push(Viol { key: "ast-contain".into(), kind: "ast", detail: format!("node {} .. {} does not contain its child {} .. {}", loc_str(&p.0), loc_str(&p.1), loc_str(&k.0), loc_str(&k.1)) });
            }
        }
    }
    for (kind, p, kids) in &c.merges {
        let st = kids.iter().map(|k| k.0).min_by_key(|l| lk(l)).unwrap();
        let en = kids.iter().map(|k| k.1).max_by_key(|l| lk(l)).unwrap();
        if lk(&st) != lk(&p.0) || lk(&en) != lk(&p.1) {
            v.push(Viol { key: format!("ast-merge/{kind}"), kind: "ast", detail: format!("{kind} span {} .. {} is not the merge {} .. {} of its parts", loc_str(&p.0), loc_str(&p.1), loc_str(&st), loc_str(&en)) });
        }
    }
    // token spans: ordered, non-overlapping, gaps = whitespace or inside a lexing-error span
    let toks: Vec<&Rec> = c.recs.iter().filter(|r| r.kind == "tok").collect();
    let errs: Vec<&Rec> = c.recs.iter().filter(|r| r.kind == "lexerr").collect();
    let mut pos = 0usize;
    let in_err = |b: usize| errs.iter().any(|e| (e.s.byte_pos as usize) <= b && b < e.e.byte_pos as usize);
    let mut gap = |from: usize, to: usize, v: &mut Vec<Viol>| {
        if from >= to || to > src.len() || !src.is_char_boundary(from) || !src.is_char_boundary(to) {
            return;
        }
        for (i, ch) in src[from..to].char_indices() {
            if !ch.is_whitespace() && !in_err(from + i) {
                v.push(Viol {
                    key: "tok/uncovered-text".into(),
                    kind: "tok",
                    detail: format!("byte {} ({ch:?}) is in no token, is not whitespace and is in no lexing error", from + i),
                });
                return;
            }
        }
    };
    if c.panics.iter().all(|(w, _)| w != "lex") {
        for r in &toks {
            let (a, b) = (r.s.byte_pos as usize, r.e.byte_pos as usize);
            if a < pos {
                v.push(Viol { key: "tok/overlap-or-disorder".into(), kind: "tok", detail: format!("token [{} {}] starts at byte {a} before the previous token's end {pos}", r.kind, r.what) });
            }
            gap(pos, a, &mut v);
            pos = pos.max(b);
        }
        // after a guard error (file/line too long) no token is produced: the whole text is "reported as an error"
        if !(toks.is_empty() && !errs.is_empty()) {
            gap(pos, src.len(), &mut v);
        }
    }
    // glyph-map positions in the formatter's output (format.rs end_loc convention:
    // line = number of '\n' before, col = chars since last '\n', char_pos = chars)
    if let Some((out, ps)) = &c.fmt_out {
        for (a, b) in ps {
            for (which, l) in [("start", a), ("end", b)] {
                let bp = l.byte_pos as usize;
                if bp > out.len() || !out.is_char_boundary(bp) {
                    v.push(Viol { key: "gmap-out/out-of-bounds-or-not-char-boundary".into(), kind: "gmap-out", detail: format!("{which} {} in formatted text of {} bytes", loc_str(l), out.len()) });
                    continue;
                }
                let cp = out[..bp].chars().count();
                if cp != l.char_pos as usize {
                    v.push(Viol { key: "gmap-out/char_pos".into(), kind: "gmap-out", detail: format!("{which} {} expected char_pos {cp}", loc_str(l)) });
                }
                let line = out[..bp].bytes().filter(|&c| c == b'\n').count();
                let col = match out[..bp].rfind('\n') {
                    Some(i) => out[i + 1..bp].chars().count(),
                    None => cp,
                };
                if line == l.line as usize && col > 65535 && l.col as usize == 65535 {
                    // format.rs end_loc since 54c7366: the column is clamped at u16::MAX (no longer wrapped)
                    v.push(Viol { key: "gmap-out/col-saturated".into(), kind: "gmap-out", detail: format!("{which} {} true column {col} (0-based) is clamped to 65535", loc_str(l)) });
                } else if (line, col) != (l.line as usize, l.col as usize) {
                    v.push(Viol { key: "gmap-out/line-col".into(), kind: "gmap-out", detail: format!("{which} {} expected {line}:{col} (0-based, in the formatted text {:?})", loc_str(l), trunc(out.clone(), 60)) });
                }
            }
            if a.byte_pos > b.byte_pos {
                v.push(Viol { key: "gmap-out/start-after-end".into(), kind: "gmap-out", detail: format!("{} .. {}", loc_str(a), loc_str(b)) });
            }
        }
    }
    v
}

// ---------------------------------------------------------------- generators

struct Gen {
    pieces: Vec<String>,
    corpus: Vec<String>,
}

const FIXED: &[&str] = &[
    "\\\\alpha", "\\\\Alpha", "\\\\pi", "\\\\eta", "\\\\tau", "\\\\3c0", "\\\\zz", "\\\\41", "\\\\110000", "\\\\", "\\", "\\\\a", "\\\\lambda",
    "e\u{301}", " \u{301}", "\"\u{301}", "@\u{301}", "\u{301}", "👨\u{200d}👩\u{200d}👧", "\u{1100}\u{1161}", "का", "α\u{345}", "π\u{345}", "é", "𝄞", "日本",
    "\r\n", "\r", "\n", "\n", "\n", "\t", " ", " ", "  ", "\u{a0}", "\u{2028}", "\u{85}", "\u{200b}",
    "$ line", "$ ", "$", "$$ fmt _ x", "$$", "$\"fmt_\"", "$\"", "\"str", "\"str\"", "\"a\\nb\"", "\"\\x4\"", "\"\\x41\"", "\"\\u{1F600}\"", "\"\\u12\"", "\"\\q\"", "\"é\u{301}\"",
    "@\\", "@a", "@\\n", "@\\x", "@", "@\\u{41}", "@ ", "$_", "$Label", "$é",
    "## out", "##", "###", "# comment", "# é\u{301} c", "#?", "#? +", "#exp", "# Experimental!", "# Deprecated! x", "#",
    "(", ")", "[", "]", "{", "}", "⟨", "⟩", "|", "_", "__12", "__", ",3", ",", "₁₂", "₋", "⌞", "⌟", "⌞₂", "ₙ", ",<", ",`2",
    "?", "??", "???", "?,2", "??,2??", "??,2??,3", "?⌞", "?__1", "?₁?",
    "←", "=", "=~", "←~", "↚", "┌─╴", "└─╴", "┌╶╶", "└╶╶", "---", "--", "---~", "~~~", "~~", "~", "≁", "≈",
    "1.5", "1.", "1e5", "1e", "1e-", "¯1", "¯", "`2", "`", "e₁₂", "e,12", "e", "¯e₁", "1,000", "1,", "1.5,5", "12e₁", "π/2", "1/2", "∞",
    "^0", "^n", "^", "^!", "!", "‼", "'", "′″", "F!", "Foo‼", "X", "abc", "Ab'", "a,1", "x₁",
    "revfliprev", "dropfirst", "kork", "regr", "unwrench", "str", "stri", "ηπτ", "π", "η", "τ", "dg", "ggdip", "fgdi", "ddf", "&p", "&sc", "&", "abc!", "rev!", "gap!", "each", "inc", "setinv", "sandwi", "regress",
    ":", ";", ";;", "*", "%", ".", "..", "‥", "↓", "|,", "∶", "◫", "◰", "𝄐⌞", "𝄐⌟", "𝄐", "⍛", "⮌", "¨", "𝄈", "∈", "⨂",
    "+", "1", "2", "[1 2 3]", "F ← +1", "F = |2 +", "A ~ \"x\"", "~ \"x\" ~ A B", "{A B}", "|A B", "(+|-)", "⊃(+|-)", "∘", "⍜⊢", "/+", "≡⊂",
];

impl Gen {
    fn new() -> Self {
        let mut pieces: Vec<String> = FIXED.iter().map(|s| s.to_string()).collect();
        for p in Primitive::all() {
            if let Some(g) = p.glyph() {
                pieces.push(g.to_string());
            }
        }
        let names: Vec<&'static str> = Primitive::all().map(|p| p.name()).filter(|n| n.is_ascii() && !n.is_empty()).collect();
        for (i, n) in names.iter().enumerate() {
            if i % 3 == 0 {
                pieces.push(n.to_string());
            }
            if i % 7 == 0 && n.len() >= 3 {
                pieces.push(n[..3].to_string());
            }
        }
        let mut corpus = Vec::new();
        for dir in ["/repo/tests", "/repo/examples"] {
            let mut files: Vec<_> = std::fs::read_dir(dir).map(|d| d.filter_map(|e| e.ok()).map(|e| e.path()).collect()).unwrap_or_default();
            files.sort();
            for f in files {
                if f.extension().and_then(|e| e.to_str()) == Some("ua") {
                    if let Ok(s) = std::fs::read_to_string(&f) {
                        for l in s.lines() {
                            if !l.trim().is_empty() && l.len() < 160 {
                                corpus.push(l.to_string());
                            }
                        }
                    }
                }
            }
        }
        Gen { pieces, corpus }
    }
    fn piece(&self, r: &mut Rng) -> &str {
        if r.chance(3, 5) { &self.pieces[r.below(FIXED.len())] } else { &self.pieces[r.below(self.pieces.len())] }
    }
    fn soup(&self, r: &mut Rng, max: usize) -> String {
        let n = 1 + r.below(max);
        let mut s = String::new();
        for _ in 0..n {
            s.push_str(self.piece(r));
            if r.chance(1, 3) {
                s.push(' ');
            }
        }
        s
    }
    fn mutate(&self, r: &mut Rng, base: &str) -> String {
        let mut s = base.to_string();
        for _ in 0..1 + r.below(3) {
            let idx: Vec<usize> = s.char_indices().map(|(i, _)| i).chain([s.len()]).collect();
            let at = idx[r.below(idx.len())];
            match r.below(5) {
                0 => s.insert_str(at, self.piece(r)),
                1 => {
                    let j = idx.iter().position(|&i| i == at).unwrap();
                    let to = idx[(j + 1 + r.below(4)).min(idx.len() - 1)];
                    s.replace_range(at..to, "");
                }
                2 => s = s.replace('\n', if r.chance(1, 2) { "\r\n" } else { "\r" }),
                3 => s.truncate(at),
                _ => {
                    s.insert_str(at, "\n");
                }
            }
        }
        s
    }
    fn input(&self, r: &mut Rng, small: bool) -> (String, &'static str) {
        let max = if small { 8 } else { 25 };
        match r.below(10) {
            0..=3 => (self.soup(r, max), "soup"),
            4 | 5 if !self.corpus.is_empty() => {
                let k = if small { 1 } else { 1 + r.below(3) };
                let mut lines = Vec::new();
                let at = r.below(self.corpus.len());
                for j in 0..k {
                    lines.push(self.corpus[(at + j) % self.corpus.len()].clone());
                }
                let mut base = lines.join("\n");
                if small && base.len() > 60 {
                    let mut cut = 60;
                    while !base.is_char_boundary(cut) {
                        cut -= 1;
                    }
                    base.truncate(cut);
                }
                (self.mutate(r, &base), "corpus-mutant")
            }
            6 => {
                // multi-line strings and output comments
                let mut s = String::new();
                let fmt = r.chance(1, 3);
                let nl = *r.pick(&["\n", "\r\n", "\n", "\r"]);
                for _ in 0..1 + r.below(4) {
                    if r.chance(1, 4) {
                        s.push_str(&" ".repeat(r.below(3)));
                    }
                    s.push_str(if fmt { "$$ " } else { "$ " });
                    s.push_str(self.piece(r));
                    s.push_str(nl);
                }
                s.push_str(self.piece(r));
                (s, "multiline-string")
            }
            7 if r.chance(2, 3) => (oc_input(r), "output-comment-eval"),
            7 => {
                let mut s = String::new();
                let nl = *r.pick(&["\n", "\r\n", "\n", "\r"]);
                s.push_str(self.piece(r));
                for _ in 0..1 + r.below(3) {
                    s.push_str(&" ".repeat(r.below(3)));
                    s.push_str(&"#".repeat(2 + r.below(2)));
                    s.push(' ');
                    s.push_str(self.piece(r));
                    s.push_str(nl);
                }
                s.push_str(self.piece(r));
                (s, "output-comment")
            }
            8 => {
                // unterminated constructs
                let open = *r.pick(&["\"", "$\"", "(", "[", "{", "⟨", "@", "@\\", "\"\\", "┌─╴M\n", "---\n", "F ←", "~ \"", "$ ", "|", "F(", "≡("]);
                let mut s = self.soup(r, 3);
                s.push_str(open);
                s.push_str(&self.soup(r, 3));
                (s, "unterminated")
            }
            _ => {
                // identifier runs
                let mut s = String::new();
                for _ in 0..1 + r.below(4) {
                    let p = self.piece(r);
                    if p.chars().all(|c| c.is_alphabetic()) {
                        s.push_str(p);
                    } else {
                        s.push_str(*r.pick(&["rev", "flip", "dup", "fir", "&p", "π", "η", "!", "'", "A", "\\\\pi", "\\\\beta", "e\u{301}", "α\u{345}"]));
                    }
                }
                s.push_str(&self.soup(r, 2));
                (s, "ident-run")
            }
        }
    }
}

/// fixed regression corpus of deliberately huge inputs (runs first in `search`).
/// Since the repair of the guard of `lex` (lex.rs:50-88: at most 65534 lines of at most 65534
/// chars) the inputs of the first group must be rejected with the ordinary too-long errors
/// (no panic, no saturated Loc); the second group lies just inside the guard and must lex cleanly.
/// (name of the defect class the input once exposed, description used in keys, text)
fn big_inputs() -> Vec<(&'static str, &'static str, String)> {
    vec![
        ("loc-u16-saturation", "65534 spaces then \"1\" (one line of 65535 chars)", format!("{}1", " ".repeat(65534))),
        ("loc-u16-saturation", "65535 line breaks then \"1\" (65536 lines)", format!("{}1", "\n".repeat(65535))),
        ("loc-u16-saturation", "65533 spaces, a lone CR, \"a\" (65535 chars)", format!("{}\ra", " ".repeat(65533))),
        ("guard-error-span", "one line of 65535 'a' then \" 1\" (LineTooLong on line 1)", format!("{} 1", "a".repeat(65535))),
        ("guard-error-span", "\"a\\n\" then one line of 65536 'x' (LineTooLong on line 2)", format!("a\n{}", "x".repeat(65536))),
        ("guard-error-span", "65536 lines \"1\\n\" then \"2\" (FileTooLong)", format!("{}2", "1\n".repeat(65536))),
        ("guard-empty-line-panic", "65537 empty lines (FileTooLong on an empty line)", "\n".repeat(65537)),
        ("split-ident-col-overflow", "65532 spaces then \"rev\" (65535 chars)", format!("{}rev", " ".repeat(65532))),
        ("line-saturation-assert", "65534 line breaks then \"a\\n\" (65535 lines)", format!("{}a\n", "\n".repeat(65534))),
        // just inside the guard: accepted, every position representable
        ("inside-guard", "65533 spaces then \"1\" (one line of 65534 chars, end column 65535)", format!("{}1", " ".repeat(65533))),
        ("inside-guard", "65533 line breaks then \"1\" (65534 lines)", format!("{}1", "\n".repeat(65533))),
        ("inside-guard", "65531 spaces then \"rev\" (split identifier ending at column 65535)", format!("{}rev", " ".repeat(65531))),
        ("inside-guard", "65532 line breaks then \"a\\n\" (Newline token from 65533:2 to 65534:1)", format!("{}a\n", "\n".repeat(65532))),
        ("inside-guard", "65532 line breaks then 65533 spaces and \"1\" (last line and last column)", format!("{}{}1", "\n".repeat(65532), " ".repeat(65533))),
    ]
}

// ---------------------------------------------------------------- shrinking

fn shrink(src: &str, full: bool, key: &str) -> String {
    let has = |s: &str| monitor(s, &collect(s, full)).iter().any(|v| v.key == key);
    let mut cur = src.to_string();
    if cur.len() > 4000 {
        return cur;
    }
    let mut rounds = 0;
    loop {
        rounds += 1;
        let mut improved = false;
        let segs: Vec<String> = segments(&cur).iter().map(|s| s.to_string()).collect();
        let n = segs.len();
        let mut chunk = (n / 2).max(1);
        'outer: while chunk >= 1 {
            let mut i = 0;
            while i < n {
                let cand: String = segs.iter().enumerate().filter(|(j, _)| *j < i || *j >= i + chunk).map(|(_, s)| s.as_str()).collect();
                if cand.len() < cur.len() && has(&cand) {
                    cur = cand;
                    improved = true;
                    break 'outer;
                }
                i += chunk;
            }
            if chunk == 1 {
                break;
            }
            chunk /= 2;
        }
        if !improved || rounds > 200 {
            break;
        }
    }
    cur
}

/// root-cause class of a violation (prefix of the key used by known_findings.json).
/// The classes repaired in /repo (escape-greek-split, combining-mark-ident-split, guard-error-span,
/// fmt-eol-comment-map: d7485e2, d674421, 38275da) are no longer recognised: whatever looks like them
/// is reported as a regression / unclassified violation.  Only the 16-bit clamp of the formatter's
/// output column is still an open class (the trimming of a non-ASCII-whitespace identifier before an
/// end-of-line comment was repaired by e63e963).
fn cause(key: &str, detail: &str, _shrunk: &str) -> &'static str {
    if key == "loc-u16-saturation" {
        ""
    } else if key == "gmap-out/col-saturated" {
        "fmt-out-col-u16"
    } else if detail.contains("too long]") {
        "regression-guard-error-span"
    } else {
        "unclassified"
    }
}

/// evaluated `##` output comments: values that print on one or several lines, captured at the
/// start or at the end of a line, at indent levels 0-3 (module, multi-line function, nested).
/// format_str evaluates output comments (format.rs:421), and an evaluated output comment at the
/// start of a line is pushed as ONE fragment that contains newlines and starts at the indent column.
const OC_VALUES: &[&str] = &["5", "[1 2 3]", "°△2_3", "°△2_2_2", "{1 [2 3] \"ab\"}", "{°△2_2 5}", "[1_2 3_4]", "\"hi\"", "[\"ab\" \"cd\"]", "°△3_1", "{°△2_2 °△2_3}", "η"];

fn oc_block(r: &mut Rng, indent: usize, pretty: bool) -> String {
    // the lines of one block of values and output comments, to be placed at the given indent
    let pad = if pretty { " ".repeat(2 * indent) } else { " ".repeat(r.below(3)) };
    let mut s = String::new();
    for _ in 0..1 + r.below(3) {
        let v = *r.pick(OC_VALUES);
        match r.below(4) {
            0 => s.push_str(&format!("{pad}{v} ##\n")),
            1 => {
                let w = *r.pick(OC_VALUES);
                s.push_str(&format!("{pad}{v} {w}\n{pad}###\n"));
            }
            _ => s.push_str(&format!("{pad}{v}\n{pad}##\n")),
        }
        if r.chance(1, 3) {
            s.push_str(&format!("{pad}◌ # c\n"));
        }
    }
    s
}

fn oc_input(r: &mut Rng) -> String {
    let pretty = r.chance(2, 3);
    let p = |n: usize| if pretty { " ".repeat(2 * n) } else { String::new() };
    match r.below(6) {
        0 => oc_block(r, 0, pretty),
        1 => format!("┌─╴M\n{}{}F ← +1\n└─╴\nM~F 1\n", oc_block(r, 1, pretty), p(1)),
        2 => format!("F ← (\n{}{}◌\n)\nF\n", oc_block(r, 1, pretty), p(1)),
        3 => format!("┌─╴M\n{}F ← (\n{}{}◌\n{})\n{}F\n└─╴\n", p(1), oc_block(r, 2, pretty), p(2), p(1), p(1)),
        4 => format!("┌─╴A\n{}┌─╴B\n{}F ← (\n{}{}◌\n{})\n{}F\n{}└─╴\n└─╴\n", p(1), p(2), oc_block(r, 3, pretty), p(3), p(2), p(2), p(1)),
        _ => format!("┌─╴A\n{}┌─╴B\n{}{}└─╴\n{}└─╴\n{}", p(1), oc_block(r, 2, pretty), p(1), oc_block(r, 1, pretty), oc_block(r, 0, pretty)),
    }
}

/// fixed corpus of evaluated output comments (runs first, after the regression inputs)
const OC_CORPUS: &[&str] = &[
    "°△2_3\n##\n+1 2\n",
    "┌─╴M\n  5\n  ##\n  F ← +1\n└─╴\nM~F 1\n",
    "┌─╴M\n  °△2_3\n  ##\n  F ← +1\n└─╴\nM~F 1\n",
    "F ← (\n  °△2_3\n  ##\n  ◌\n)\nF\n",
    "┌─╴M\n  F ← (\n    °△2_2_2\n    ##\n    ◌\n  )\n  F\n└─╴\n",
    "┌─╴A\n┌─╴B\nF ← (\n{°△2_2 5}\n##\n◌\n)\nF\n└─╴\n└─╴\n",
    "┌─╴M\n  °△2_3 ##\n  1 °△2_2\n  ###\n└─╴\n",
    "┌─╴M\n  [1_2 3_4]\n  ##\n  {°△2_2 °△2_3}\n  ##\n  5 ##\n└─╴\n",
    "F ← (\n  \"hi\" # c\n  °△3_1\n  ##\n  ◌◌\n)\nF\n",
];

/// former failing inputs of repaired defect classes: replayed first by `tie` and `search`
/// (class, input)
const REGRESSION: &[(&str, &str)] = &[
    ("escape-greek-split", "\\\\pi"),
    ("escape-greek-split", "\\\\eta"),
    ("escape-greek-split", "\\\\tau"),
    ("escape-greek-split", "\\\\3c0"),
    ("escape-greek-split", "[\\\\eta"),
    ("escape-greek-split", "(\\\\tau 1"),
    ("escape-greek-split", "\\\\pi\\\\eta rev\\\\tau"),
    ("combining-mark-ident-split", "r\u{301}"),
    ("combining-mark-ident-split", "\u{3c4}\u{301}"),
    ("combining-mark-ident-split", "\u{3b7}\u{301}"),
    ("combining-mark-ident-split", "revr\u{301} dup\u{3b7}\u{301}x"),
    ("fmt-eol-comment-map", "1# c\n2"),
    ("fmt-eol-comment-map", "!#\n\u{2b8c}"),
    ("fmt-eol-comment-map", "\n5#"),
    ("fmt-eol-comment-map", "?#e\u{301}\u{301}\r\ne"),
    ("fmt-eol-comment-map", "\u{1d110}#\r\n!"),
    ("fmt-eol-comment-map", "o#\n*"),
    ("fmt-eol-comment-map", "1 #a\n2#b\n+ # c\n\u{2b8c}"),
    // e63e963: trim_end() of a commented line deleted an identifier made of a non-ASCII whitespace character
    ("fmt-eol-comment-ws-ident", "!\u{85} #"),
    ("fmt-eol-comment-ws-ident", "v\u{2028} #"),
    ("fmt-eol-comment-ws-ident", "\u{2082}\u{a0} # c\n2"),
    ("fmt-eol-comment-ws-ident", "\"\"\u{85} #\n()\u{a0}  # c"),
];

// ---------------------------------------------------------------- output

fn loc_json(l: &Loc) -> String {
    format!("[{},{},{},{}]", l.byte_pos, l.char_pos, l.line, l.col)
}

fn segs_json(src: &str) -> String {
    let mut s = String::from("[");
    for (i, seg) in segments(src).iter().enumerate() {
        if i > 0 {
            s.push(',');
        }
        s.push('[');
        for (j, ch) in seg.chars().enumerate() {
            if j > 0 {
                s.push(',');
            }
            write!(s, "[{},{}]", ch.len_utf8(), class_of(ch)).unwrap();
        }
        s.push(']');
    }
    s.push(']');
    s
}

static STARTED: AtomicU64 = AtomicU64::new(0);

fn watchdog(cur: Arc<Mutex<String>>) {
    std::thread::spawn(move || {
        let mut last = (0u64, std::time::Instant::now());
        loop {
            std::thread::sleep(std::time::Duration::from_secs(2));
            let n = STARTED.load(Ordering::Relaxed);
            if n != last.0 {
                last = (n, std::time::Instant::now());
            } else if last.1.elapsed().as_secs() > 120 {
                let s = cur.lock().map(|s| s.clone()).unwrap_or_default();
                println!("{{\"hang\":{}}}", jstr(&s));
                eprintln!("c19: input did not finish in 120 s: {s:?}");
                std::process::exit(3);
            }
        }
    });
}

fn main() {
    let mode = std::env::args().nth(1).unwrap_or_default();
    let n: usize = std::env::args().nth(2).and_then(|s| s.parse().ok()).unwrap_or(100);
    let mut r = Rng::new(seed_from_env());
    let cur = Arc::new(Mutex::new(String::new()));
    watchdog(cur.clone());
    let begin = |s: &str| {
        *cur.lock().unwrap() = s.to_string();
        STARTED.fetch_add(1, Ordering::Relaxed);
    };
    match mode.as_str() {
        "probe" => {
            let mut src = String::new();
            std::io::Read::read_to_string(&mut std::io::stdin(), &mut src).unwrap();
            let c = collect(&src, true);
            if src.len() < 2000 {
                println!("segments: {:?}", segments(&src));
                for r in &c.recs {
                    println!("{:10} {} .. {}  {}", r.kind, loc_str(&r.s), loc_str(&r.e), r.what);
                }
                if let Some((out, ps)) = &c.fmt_out {
                    println!("formatted: {out:?}");
                    for (a, b) in ps {
                        println!("gmap-out   {} .. {}", loc_str(a), loc_str(b));
                    }
                }
            } else {
                println!("{} bytes, {} spans", src.len(), c.recs.len());
                for r in c.recs.iter().take(6) {
                    println!("{:10} {} .. {}  {}", r.kind, loc_str(&r.s), loc_str(&r.e), r.what);
                }
            }
            for (w, p) in &c.panics {
                println!("PANIC in {w}: {p}");
            }
            let mut seen = BTreeMap::new();
            for v in monitor(&src, &c) {
                if seen.insert(v.key.clone(), ()).is_none() {
                    println!("VIOLATION {}: {}", v.key, v.detail);
                }
            }
        }
        "tie" => {
            let g = Gen::new();
            let mut k = 0;
            while k < n {
                let (src, cat) = if k < REGRESSION.len() {
                    (REGRESSION[k].1.to_string(), "regression")
                } else if k < REGRESSION.len() + OC_CORPUS.len() {
                    (OC_CORPUS[k - REGRESSION.len()].to_string(), "output-comment-eval")
                } else {
                    g.input(&mut r, true)
                };
                if segments(&src).len() > 90 && cat != "output-comment-eval" || segments(&src).len() > 160 {
                    continue;
                }
                begin(&src);
                let c = collect(&src, true);
                let mut line = format!("{{\"i\":{k},\"cat\":{},\"src\":{},\"segs\":{},\"panics\":{},\"ntok\":{},\"nlexerr\":{},\"spans\":[", jstr(cat), jstr(&src), segs_json(&src), c.panics.len(), c.ntok, c.nlexerr);
                for (j, rc) in c.recs.iter().enumerate() {
                    if j > 0 {
                        line.push(',');
                    }
                    write!(line, "[{},{},{}]", jstr(rc.kind), loc_json(&rc.s), loc_json(&rc.e)).unwrap();
                }
                line.push_str("],\"contains\":[");
                for (j, (p, kids)) in c.contains.iter().enumerate() {
                    if j > 0 {
                        line.push(',');
                    }
                    write!(line, "[[{},{}],[", loc_json(&p.0), loc_json(&p.1)).unwrap();
                    for (i, k) in kids.iter().enumerate() {
                        if i > 0 {
                            line.push(',');
                        }
                        write!(line, "[{},{}]", loc_json(&k.0), loc_json(&k.1)).unwrap();
                    }
                    line.push_str("]]");
                }
                line.push_str("],\"merges\":[");
                for (j, (kind, p, kids)) in c.merges.iter().enumerate() {
                    if j > 0 {
                        line.push(',');
                    }
                    write!(line, "[{},[{},{}],[", jstr(kind), loc_json(&p.0), loc_json(&p.1)).unwrap();
                    for (i, k) in kids.iter().enumerate() {
                        if i > 0 {
                            line.push(',');
                        }
                        write!(line, "[{},{}]", loc_json(&k.0), loc_json(&k.1)).unwrap();
                    }
                    line.push_str("]]");
                }
                line.push_str("],\"out\":");
                match &c.fmt_out {
                    Some((out, ps)) if out.chars().count() <= 1500 => {
                        line.push('[');
                        for (j, ch) in out.chars().enumerate() {
                            if j > 0 {
                                line.push(',');
                            }
                            write!(line, "[{},{}]", ch.len_utf8(), class_of(ch)).unwrap();
                        }
                        line.push_str("],\"gout\":[");
                        for (j, (a, b)) in ps.iter().enumerate() {
                            if j > 0 {
                                line.push(',');
                            }
                            write!(line, "[{},{}]", loc_json(a), loc_json(b)).unwrap();
                        }
                        line.push(']');
                    }
                    _ => line.push_str("null,\"gout\":[]"),
                }
                line.push_str(",\"viol\":[");
                let mut seen: Vec<String> = Vec::new();
                for v in monitor(&src, &c) {
                    if seen.contains(&v.key) {
                        continue;
                    }
                    if !seen.is_empty() {
                        line.push(',');
                    }
                    seen.push(v.key.clone());
                    let small = shrink(&src, true, &v.key);
                    let detail = monitor(&small, &collect(&small, true)).into_iter().find(|x| x.key == v.key).map(|x| x.detail).unwrap_or(v.detail.clone());
                    let cz = if k < REGRESSION.len() { format!("regression-{}", REGRESSION[k].0) } else { cause(&v.key, &detail, &small).to_string() };
                    write!(line, "[{},{},{},{}]", jstr(&v.key), jstr(&cz), jstr(&small), jstr(&detail)).unwrap();
                }
                line.push_str("]}");
                println!("{line}");
                k += 1;
            }
        }
        "search" => {
            let g = Gen::new();
            let mut evals = 0usize;
            let mut nspans = 0usize;
            let mut by_kind: BTreeMap<&'static str, usize> = BTreeMap::new();
            let mut by_cat: BTreeMap<&'static str, usize> = BTreeMap::new();
            let mut reported: BTreeMap<String, usize> = BTreeMap::new();
            let mut seen_small: Vec<(String, String)> = Vec::new();
            let mut buckets: BTreeMap<String, usize> = BTreeMap::new();
            let mut run = |src: &str, cat: &'static str, full: bool, label: Option<(&str, &str)>, do_shrink: bool| {
                begin(src);
                let c = collect(src, full);
                evals += 1;
                nspans += c.recs.len();
                *by_cat.entry(cat).or_default() += 1;
                for rc in &c.recs {
                    *by_kind.entry(rc.kind).or_default() += 1;
                }
                let vs = monitor(src, &c);
                let mut keys: Vec<String> = Vec::new();
                for v in vs {
                    if keys.contains(&v.key) {
                        continue;
                    }
                    keys.push(v.key.clone());
                    *reported.entry(v.key.clone()).or_default() += 1;
                    // cap the number of shrunk reports per (kind of violation, presumed root cause)
                    let bucket = format!("{}#{}", v.key, cause(&v.key, &v.detail, src));
                    let cnt = buckets.entry(bucket).or_default();
                    *cnt += 1;
                    if *cnt > 12 {
                        continue;
                    }
                    let small = if do_shrink { shrink(src, full, &v.key) } else { src.to_string() };
                    let detail = if small != src {
                        monitor(&small, &collect(&small, full)).into_iter().find(|x| x.key == v.key).map(|x| x.detail).unwrap_or(v.detail.clone())
                    } else {
                        v.detail.clone()
                    };
                    let shown = match label {
                        Some((_, l)) => l.to_string(),
                        None => small.clone(),
                    };
                    if seen_small.contains(&(v.key.clone(), shown.clone())) {
                        continue;
                    }
                    seen_small.push((v.key.clone(), shown.clone()));
                    let cz: String = match label {
                        // regression corpus: nothing on these inputs is a known class any more
                        Some((c, _)) if v.key != "loc-u16-saturation" => {
                            format!("regression-{c}")
                        }
                        _ => cause(&v.key, &detail, &small).to_string(),
                    };
                    let cz = cz.as_str();
                    println!(
                        "{{\"violation\":{},\"cause\":{},\"span_kind\":{},\"input\":{},\"input_len\":{},\"detail\":{},\"cat\":{}}}",
                        jstr(&v.key),
                        jstr(cz),
                        jstr(v.kind),
                        jstr(&shown),
                        small.len(),
                        jstr(&detail),
                        jstr(cat)
                    );
                }
            };
            for (cz, src) in REGRESSION {
                run(src, "regression", true, Some((cz, src)), false);
            }
            for src in OC_CORPUS {
                run(src, "output-comment-eval", true, None, true);
            }
            for (cz, label, src) in big_inputs() {
                run(&src, "big", false, Some((cz, label)), false);
                let accepted = catch(|| uiua::lex(&src, (), &mut Inputs::default()).0.len()).map(|n| n > 0).unwrap_or(false);
                if accepted != (cz == "inside-guard") {
                    println!(
                        "{{\"violation\":\"guard/acceptance\",\"cause\":\"regression-{cz}\",\"span_kind\":\"guard\",\"input\":{},\"input_len\":{},\"detail\":{},\"cat\":\"big\"}}",
                        jstr(label),
                        src.len(),
                        jstr(if accepted { "the guard of lex accepted an input whose positions do not fit the 16-bit line/column" } else { "the guard of lex rejected an input whose positions all fit" })
                    );
                }
            }
            // formatter only: the OUTPUT-side positions of the glyph map are 16-bit too (format.rs end_loc).
            // 54c7366 replaced the truncating cast of the column by a clamp: a wrapped column is a regression,
            // a clamped one is the remaining limit (finding fmt-out-col-u16), a line of exactly 65535 chars is exact.
            for (label, npl, may_clamp) in [
                ("\"F=\" then 65532 '+' (accepted: 65534 chars; the formatted line \"F \u{2190} +++...\" has 65536 chars)", 65532usize, true),
                ("\"F=\" then 65531 '+' (the formatted line has 65535 chars: last column exactly representable)", 65531usize, false),
            ] {
                let src = format!("F={}", "+".repeat(npl));
                begin(&src);
                let mut c = Collected { recs: Vec::new(), fmt_out: None, panics: Vec::new(), ntok: 0, nlexerr: 0, contains: Vec::new(), merges: Vec::new() };
                collect_format(&src, &mut c);
                let mut seen: Vec<String> = Vec::new();
                if c.fmt_out.is_none() {
                    println!("{{\"violation\":\"gmap-out/no-output\",\"cause\":\"regression-fmt-out-col\",\"span_kind\":\"gmap-out\",\"input\":{},\"input_len\":{},\"detail\":\"format_str produced no output\",\"cat\":\"big\"}}", jstr(label), src.len());
                }
                for v in monitor(&src, &c) {
                    if !(v.key.starts_with("gmap") || v.key.starts_with("panic/")) || seen.contains(&v.key) {
                        continue;
                    }
                    seen.push(v.key.clone());
                    let cz = if v.key == "gmap-out/col-saturated" && may_clamp { "fmt-out-col-u16" } else { "regression-fmt-out-col-wrap" };
                    println!(
                        "{{\"violation\":{},\"cause\":{},\"span_kind\":{},\"input\":{},\"input_len\":{},\"detail\":{},\"cat\":\"big\"}}",
                        jstr(&v.key),
                        jstr(cz),
                        jstr(v.kind),
                        jstr(label),
                        src.len(),
                        jstr(&v.detail)
                    );
                }
            }
            for k in 0..n {
                let (src, cat) = g.input(&mut r, false);
                // the expensive consumers (compiler, language server, formatter) on every 4th input
                run(&src, cat, k % 4 == 0 || cat == "output-comment-eval", None, true);
            }
            drop(run);
            let kinds: Vec<String> = by_kind.iter().map(|(k, v)| format!("{}:{}", jstr(k), v)).collect();
            let cats: Vec<String> = by_cat.iter().map(|(k, v)| format!("{}:{}", jstr(k), v)).collect();
            let keys: Vec<String> = reported.iter().map(|(k, v)| format!("{}:{}", jstr(k), v)).collect();
            println!("{{\"evaluations\":{evals},\"spans\":{nspans},\"by_kind\":{{{}}},\"by_cat\":{{{}}},\"violation_counts\":{{{}}}}}", kinds.join(","), cats.join(","), keys.join(","));
        }
        _ => eprintln!("usage: c19 tie|search N | probe < input"),
    }
}
