//! C18: encoders and their decoders are mutual inverses.
//!   c18 eval SRC   -> run a uiua program, print the stack (probing / confirming findings)
//!   c18 tie N      -> JSON lines: inputs with the REAL encoders' outputs (bytes / bits / code units /
//!                     digits) and the real decoders' verdicts on produced and malformed encodings
//!   c18 search N   -> JSON lines: round-trip violations found on the implementation (+ counters)
use std::collections::BTreeMap;
use std::fmt::Write as _;

use uiua::{Complex, Value};
use uvh::*;

const EXP: &str = "# Experimental!\n";

fn run1(src: &str, args: &[Value]) -> Result<Value, String> {
    let st = run_uiua_with(&format!("{EXP}{src}"), args)?;
    st.into_iter().last().ok_or_else(|| "empty stack".to_string())
}

// ------------------------------------------------------------------ JSON rendering of values

fn jlist<I: IntoIterator<Item = String>>(xs: I) -> String {
    let v: Vec<String> = xs.into_iter().collect();
    format!("[{}]", v.join(","))
}

fn map_keys_of(v: &Value) -> Option<Value> {
    if !v.is_map() {
        return None;
    }
    // °map : keys on top of values
    let st = run_uiua_with("°map", &[v.clone()]).ok()?;
    st.into_iter().last()
}

/// value -> JSON {t, sh, d, fl, lbl, keys}
fn jval(v: &Value) -> String {
    let sh = jlist(v.shape.iter().map(|d| d.to_string()));
    let (t, d) = match v {
        Value::Num(a) => ("num", jlist(a.elements().map(|x| x.to_bits().to_string()))),
        Value::Byte(a) => ("byte", jlist(a.elements().map(|x| x.to_string()))),
        Value::Char(a) => ("char", jlist(a.elements().map(|x| (*x as u32).to_string()))),
        Value::Complex(a) => ("cplx", jlist(a.elements().map(|c| format!("[{},{}]", c.re.to_bits(), c.im.to_bits())))),
        Value::Box(a) => ("box", jlist(a.elements().map(|b| jval(&b.0)))),
    };
    let lbl = match &v.meta.label {
        Some(s) => jlist(s.as_bytes().iter().map(|b| b.to_string())),
        None => "null".into(),
    };
    let keys = match map_keys_of(v) {
        Some(k) => jval(&k),
        None => "null".into(),
    };
    let has_meta = v.meta != uiua::ArrayMeta::default();
    format!(
        "{{\"t\":\"{t}\",\"sh\":{sh},\"d\":{d},\"fl\":{},\"lbl\":{lbl},\"keys\":{keys},\"meta\":{has_meta}}}",
        v.meta.flags.bits()
    )
}

fn ints_of(v: &Value) -> Option<Vec<i128>> {
    match v {
        Value::Num(a) => a.elements().map(|x| if x.fract() == 0.0 && x.abs() < 1e38 { Some(*x as i128) } else { None }).collect(),
        Value::Byte(a) => Some(a.elements().map(|x| *x as i128).collect()),
        _ => None,
    }
}

fn jints(xs: &[i128]) -> String {
    jlist(xs.iter().map(|x| x.to_string()))
}
fn jshape(v: &Value) -> String {
    jlist(v.shape.iter().map(|d| d.to_string()))
}

// ------------------------------------------------------------------ comparison

fn describe(v: &Value) -> String {
    let mut s = format!("{} shape {:?}", v.type_name(), v.shape.iter().collect::<Vec<_>>());
    if let Some(l) = &v.meta.label {
        write!(s, " label {l:?}").unwrap();
    }
    if v.is_map() {
        s.push_str(" map");
    }
    let mut d = format!("{v:?}");
    if d.chars().count() > 300 {
        d = d.chars().take(300).collect();
        d.push('…');
    }
    write!(s, " {d}").unwrap();
    s
}

/// deep comparison: uiua equality + shape + type name + label + map-ness (+ keys), recursively.
/// Err = (kind of mismatch : class of the innermost mismatching value, message)
/// bits: 0 = uiua equality; 1 = bit-exact numbers, any NaN matches any NaN; 2 = bit-exact incl. NaN sign/payload
fn same(a: &Value, b: &Value, bits: u8) -> Result<(), (String, String)> {
    let cls = |k: &str| format!("{k}:{}", val_class(a));
    if a.shape != b.shape {
        return Err((cls("shape"), format!("shape {:?} vs {:?}", a.shape, b.shape)));
    }
    if a.type_name() != b.type_name() {
        return Err((cls("type"), format!("type {} vs {}", a.type_name(), b.type_name())));
    }
    if a.meta.label != b.meta.label {
        return Err((cls("label"), format!("label {:?} vs {:?}", a.meta.label, b.meta.label)));
    }
    if a.is_map() != b.is_map() {
        return Err((cls("mapness"), format!("map-ness {} vs {}", a.is_map(), b.is_map())));
    }
    if a.is_map() {
        let (ka, kb) = (map_keys_of(a), map_keys_of(b));
        match (ka, kb) {
            (Some(ka), Some(kb)) => {
                if let Err((_, e)) = same(&ka, &kb, bits) {
                    let mut sa: Vec<String> = ka.rows().map(|r| format!("{r:?}")).collect();
                    let mut sb: Vec<String> = kb.rows().map(|r| format!("{r:?}")).collect();
                    sa.sort();
                    sb.sort();
                    let k = if sa == sb { "map-key-order" } else { "map-keys" };
                    return Err((k.to_string(), format!("map keys: {e}")));
                }
            }
            _ => return Err((cls("map-keys"), "map keys unavailable".into())),
        }
    }
    match (a, b) {
        (Value::Box(x), Value::Box(y)) => {
            for (i, (p, q)) in x.elements().zip(y.elements()).enumerate() {
                same(&p.0, &q.0, bits).map_err(|(k, e)| (k, format!("box element {i}: {e}")))?;
            }
        }
        _ => {
            if a != b {
                return Err((cls("data"), "values differ under uiua equality".into()));
            }
            if bits > 0 {
                // bit-exact numbers (distinguishes -0.0 from 0.0, and with bits = 2 the NaN payloads)
                let fa = floats_of(a);
                let fb = floats_of(b);
                for (i, (p, q)) in fa.iter().zip(&fb).enumerate() {
                    if p.to_bits() != q.to_bits() && !(bits == 1 && p.is_nan() && q.is_nan()) {
                        let k = if *p == 0.0 && *q == 0.0 { if matches!(a, Value::Complex(_)) { "negzero-complex" } else { "negzero" } } else if p.is_nan() && q.is_nan() { "nan-bits" } else { "bits" };
                        return Err((k.to_string(), format!("element {i}: bits {:#018x} ({p:?}) vs {:#018x} ({q:?})", p.to_bits(), q.to_bits())));
                    }
                }
            }
        }
    }
    Ok(())
}

fn floats_of(v: &Value) -> Vec<f64> {
    match v {
        Value::Num(a) => a.elements().copied().collect(),
        Value::Byte(a) => a.elements().map(|x| *x as f64).collect(),
        Value::Complex(a) => a.elements().flat_map(|c| [c.re, c.im]).collect(),
        _ => vec![],
    }
}

// ------------------------------------------------------------------ generators

const CPS: [u32; 30] = [
    0, 1, 0x41, 0x61, 0x7f, 0x80, 0xe9, 0x7ff, 0x800, 0x301, 0x20ac, 0xd7ff, 0xe000, 0xfffd, 0xffff, 0x10000, 0x1d11e, 0x1f600, 0x1f3fb,
    0x200d, 0xfe0f, 0x10ffff, 0x20, 0x0a, 0x22, 0x5c, 0x2c, 0x0d, 0x1f469, 0x1100,
];

fn gen_cp(r: &mut Rng) -> u32 {
    loop {
        let c = match r.below(6) {
            0 | 1 => *r.pick(&CPS),
            2 => r.range(0x20, 0x7e) as u32,
            3 => r.range(0x80, 0x7ff) as u32,
            4 => r.range(0x800, 0xffff) as u32,
            _ => r.range(0x10000, 0x10ffff) as u32,
        };
        if char::from_u32(c).is_some() {
            return c;
        }
    }
}

/// characters that repr writes as an escape sequence (controls, quote, backslash, unprintables, unassigned)
const ESCAPED: [u32; 18] = [0x0a, 0x09, 0x0d, 0x00, 0x1b, 0x7f, 0x22, 0x5c, 0x85, 0xad, 0x200b, 0x2028, 0xffff, 0xe000, 0x383, 0x10ffff, 0x08, 0x9f];
/// characters that extend the preceding grapheme cluster: spacing marks, Grapheme_Extend marks, ZWJ,
/// variation selectors, emoji skin tones, conjoining jamo, tags, regional indicators
const JOINERS: [u32; 24] = [
    0x93e, 0x93f, 0x903, 0x0bbe, 0x0d3e, 0x1f3fb, 0x1f3fc, 0x1f3fd, 0x1f3fe, 0x1f3ff, 0x200d, 0xfe0f, 0xfe0e, 0x301, 0x300, 0x20e3, 0x1160, 0x11a8, 0xe0020, 0xe007f,
    0x1f1e6, 0x0e33, 0x094d, 0x1d165,
];
const BASES: [u32; 8] = [0x61, 0x20, 0x1f469, 0x915, 0x1100, 0x7d, 0x7b, 0x31];

/// exactly n characters: free code points mixed with segments `escaped char + run of 1-4 joiners`
/// (also a run at the very start, and runs after ordinary base characters)
fn gen_chars_n(r: &mut Rng, n: usize) -> Vec<char> {
    let mut out: Vec<u32> = Vec::with_capacity(n + 6);
    let structured = r.chance(1, 2);
    if structured && r.chance(1, 3) {
        for _ in 0..1 + r.below(3) {
            out.push(*r.pick(&JOINERS));
        }
    }
    while out.len() < n {
        if structured && r.chance(2, 3) {
            out.push(if r.chance(3, 4) { *r.pick(&ESCAPED) } else { *r.pick(&BASES) });
            let same = r.chance(1, 2);
            let j0 = *r.pick(&JOINERS);
            for _ in 0..1 + r.below(4) {
                out.push(if same { j0 } else { *r.pick(&JOINERS) });
            }
        } else {
            out.push(gen_cp(r));
        }
    }
    out.truncate(n);
    out.into_iter().map(|c| char::from_u32(c).unwrap()).collect()
}

fn gen_string(r: &mut Rng, max: usize) -> Vec<char> {
    let n = r.below(max + 1);
    gen_chars_n(r, n)
}

fn gen_nat53(r: &mut Rng) -> u64 {
    match r.below(8) {
        0 => r.below(4) as u64,
        1 => r.below(300) as u64,
        2 => (1u64 << r.below(54)).min((1 << 53) - 1),
        3 => (1u64 << (1 + r.below(53))) - 1,
        4 => (1 << 53) - 1 - r.below(3) as u64,
        5 => r.next() & ((1 << 53) - 1),
        6 => r.next() & ((1 << 32) - 1),
        _ => r.next() >> (11 + r.below(53)),
    }
}

fn gen_finite_f64(r: &mut Rng) -> f64 {
    loop {
        let x = match r.below(10) {
            0 => f64::from_bits(r.next()),
            1 => (r.range(-1000000, 1000000) as f64) / 1000.0,
            2 => r.range(-300, 300) as f64,
            3 => f64::from_bits(r.next() & 0x000f_ffff_ffff_ffff), // subnormal
            4 => *r.pick(&[0.0, -0.0, 1.0, -1.0, 0.1, 0.2, 0.3, 1e21, 1e-7, 1e15, 1e16, 1e17, 123456789012345680.0, f64::MAX, f64::MIN_POSITIVE, 5e-324, 9007199254740993.0, 0.1 + 0.2, 1.0 / 3.0, 2.5e-5]),
            5 => (r.next() >> 11) as f64 * if r.chance(1, 2) { -1.0 } else { 1.0 },
            6 => 10f64.powi(r.range(-320, 308) as i32),
            7 => (gen_nat53(r) as f64) * 2f64.powi(r.range(-60, 60) as i32),
            8 => std::f64::consts::PI * 10f64.powi(r.range(-20, 20) as i32),
            _ => r.range(-5, 5) as f64 + 0.5,
        };
        if x.is_finite() {
            return x;
        }
    }
}

/// numbers that exercise every width class of `binary`
fn gen_bin_num(r: &mut Rng, class: usize) -> f64 {
    match class {
        0 => r.below(256) as f64,
        1 => r.range(0, 65535) as f64,
        2 => r.range(0, u32::MAX as i64) as f64,
        3 => *r.pick(&[4294967296.0, 1e15, 9007199254740992.0, 18446744073709551616.0, 18446744073709549568.0, 1e19]),
        4 => r.range(-128, 127) as f64,
        5 => r.range(-32768, 32767) as f64,
        6 => r.range(i32::MIN as i64, i32::MAX as i64) as f64,
        7 => *r.pick(&[-2147483649.0, -1e15, -9223372036854775808.0, 9223372036854775808.0, -9007199254740993.0]),
        8 => *r.pick(&[0.5, -0.25, 1.5, 3.0e38, f64::INFINITY, f64::NEG_INFINITY, f64::NAN, 0.1f32 as f64, -1e-40f32 as f64, 16777217.5f32 as f64]),
        9 => *r.pick(&[0.1, std::f64::consts::PI, 1e300, -1e-300, 5e-324, 1e39, f64::from_bits(0x7ff8_0000_0000_0001), 1e20, -1e20, 3.0e38 * 2.0]),
        12 => gen_special(r),
        10 => *r.pick(&[-0.0, 0.0, 255.0, 256.0, 65535.0, 65536.0, 4294967295.0, -128.0, -129.0, 127.0, 128.0, 32767.0, 32768.0, -32768.0, -32769.0, 2147483647.0, 2147483648.0, -2147483648.0, 16777216.0, 16777217.0, 1e30, -1e30]),
        _ => gen_finite_f64(r),
    }
}

/// NaNs with non-default payload / sign, signed zeros, subnormals, the edges of the f32 range
const SPECIAL_BITS: [u64; 20] = [
    0x7ff8_0000_0000_0003, // W, the wildcard
    0x7ff8_0000_0000_0001, // map EMPTY sentinel
    0x7ff8_0000_0000_0002, // map TOMBSTONE sentinel
    0xfff8_0000_0000_0000, // -NaN (fits f32)
    0x7ff0_0000_0000_0001, // signalling NaN, low payload
    0x7ff8_0000_2000_0000, // quiet NaN whose payload fits f32
    0xfff8_0000_6000_0000, // negative, payload fits f32
    0x7ffc_0000_0000_0000, // payload in the top bits (fits f32)
    0xffff_ffff_ffff_ffff, // all ones
    0x8000_0000_0000_0000, // -0.0
    0x0000_0000_0000_0000, // 0.0
    0x0000_0000_0000_0001, // smallest f64 subnormal
    0x800f_ffff_ffff_ffff, // largest negative f64 subnormal
    0x36a0_0000_0000_0000, // 2^-149: smallest f32 subnormal, f32-exact
    0xb7f0_0000_0000_0000, // -2^-128: f32 subnormal, f32-exact
    0x3810_0000_0000_0000, // 2^-126: smallest normal f32
    0x47ef_ffff_e000_0000, // f32::MAX
    0x47ef_ffff_f000_0000, // just above f32::MAX (rounds to infinity as f32)
    0x7ff0_0000_0000_0000, // inf
    0xfff0_0000_0000_0000, // -inf
];

fn gen_special(r: &mut Rng) -> f64 {
    f64::from_bits(*r.pick(&SPECIAL_BITS))
}

fn gen_bin_any(r: &mut Rng) -> f64 {
    let c = r.below(13);
    gen_bin_num(r, c)
}

fn gen_shape_r(r: &mut Rng, max_rank: usize, max_dim: usize) -> Vec<usize> {
    let rank = r.below(max_rank + 1);
    (0..rank).map(|_| if r.chance(1, 7) { 0 } else { 1 + r.below(max_dim) }).collect()
}

fn gen_val(r: &mut Rng, depth: usize, max_rank: usize) -> Value {
    let shape = gen_shape_r(r, max_rank, 3);
    let n = shape_len(&shape);
    let kind = r.below(if depth < 3 { 7 } else { 5 });
    let mut v = match kind {
        0 => {
            let class = r.below(13);
            let mixed = r.chance(1, 4);
            // a quarter of the arrays: specials (NaN payloads, signed zeros, subnormals) next to one width class
            let spiced = r.chance(1, 4);
            let d: Vec<f64> = (0..n)
                .map(|_| {
                    if spiced && r.chance(1, 3) {
                        gen_special(r)
                    } else {
                        let c = if mixed { r.below(13) } else { class };
                        gen_bin_num(r, c)
                    }
                })
                .collect();
            num(&shape, &d)
        }
        1 => byte(&shape, &(0..n).map(|_| r.below(256) as u8).collect::<Vec<_>>()),
        2 => chars(&shape, &gen_chars_n(r, n)),
        3 => cplx(&shape, &(0..n).map(|_| Complex::new(gen_bin_any(r), gen_bin_any(r))).collect::<Vec<_>>()),
        4 => num(&shape, &(0..n).map(|_| gen_finite_f64(r)).collect::<Vec<_>>()),
        _ => boxes(&shape, (0..n).map(|_| gen_val(r, depth + 1, max_rank.min(2))).collect()),
    };
    if r.chance(1, 6) {
        let l: String = gen_label(r);
        v.meta.label = Some(l.as_str().into());
    }
    if r.chance(1, 8) && v.rank() >= 1 {
        // make it a map: keys = distinct numbers / strings
        let rc = v.row_count();
        let keys = match r.below(3) {
            0 => num(&[rc], &(0..rc).map(|i| (i * 3 + 1) as f64).collect::<Vec<_>>()),
            1 => boxes(&[rc], (0..rc).map(|i| Value::from(format!("k{i}"))).collect()),
            _ => chars(&[rc], &(0..rc).map(|i| char::from_u32(0x61 + i as u32).unwrap()).collect::<Vec<_>>()),
        };
        if let Ok(m) = run1("map", &[v.clone(), keys]) {
            v = m;
        }
    }
    v
}

fn gen_label(r: &mut Rng) -> String {
    r.pick(&["A", "Foo", "Xy", "Λ", "Label", "Über"]).to_string()
}

/// values produced by real primitives (carry flags: sorted, boolean ...)
fn op_values() -> Vec<Value> {
    let progs = [
        "⇡5", "⇡0", "⍆[3 1 2]", "⇌⇡4", "=1 [1 0 1]", "⊚[1 0 2]", "°△2_3", "⊛\"hello\"", "◴[1 1 2]", "⍏[3 1 2]", "$Lab 5", "$Lab [1 2 3]",
        "map [1 2 3] [4 5 6]", "map {\"a\" \"bc\"} [1 2]", "map [] []", "{1 \"two\" [3 4] {5 □6}}", "□□□1", "[]", "\"\"", "{}", "↯0_3 0", "↯3_0 @a",
        "↯2_0_2 □1", "ℂ1 2", "[ℂ0 1 ℂ¯0 NaN]", "@a", "¯0", "[¯0 0]", "NaN", "[∞ ¯∞]", "η_π_τ", "÷⟜⇡256", "map [1_2 3_4] [5 6]", "⬚0map [1 2] [3_4 5_6]",
        "insert 1 2 map [] []", "remove 2 map [1 2 3] [4 5 6]", "True", "[True False]", "{$A 1 $B \"x\"}", "$Outer {$Inner [1 2]}", "⊟.map [1 2] [3 4]",
        "□map [1 2] [3 4]", "map {1 \"a\"} {[1 2] @c}", "↯1_1_1_1 5", "↯2_1_0_3 0", "1e300", "[0.5 0.25]", "[1e39 1]", "[16777216 16777217.5]",
    ];
    progs.iter().filter_map(|p| run_uiua(&format!("{EXP}{p}")).ok().and_then(|s| s.into_iter().last())).collect()
}

/// arrays at the boundaries of every width class of `binary`
fn boundary_values() -> Vec<Value> {
    let rows: [&[f64]; 30] = [
        &[255.0], &[256.0], &[0.0, 255.0], &[65535.0], &[65536.0], &[4294967295.0], &[4294967296.0], &[18446744073709551616.0], &[18446744073709549568.0],
        &[36893488147419103232.0], &[-128.0], &[-129.0], &[127.0, -1.0], &[128.0, -1.0], &[32767.0, -1.0], &[32768.0, -1.0], &[-32768.0], &[-32769.0],
        &[2147483647.0, -1.0], &[2147483648.0, -1.0], &[-2147483648.0], &[-2147483649.0], &[9223372036854775808.0, -1.0], &[-9223372036854775808.0],
        &[-9223372036854777856.0], &[16777217.0, 0.5], &[0.5], &[0.1], &[-0.0], &[f64::NAN, 1.0],
    ];
    let mut vals: Vec<Value> = rows.iter().map(|d| num(&[d.len()], d)).collect();
    // every special alone (scalar and list) and next to a companion of every width class, so that
    // the narrowing paths (u8 .. i64, f32) are taken when the special allows it
    let companions = [0.5, 1.0, 200.0, -3.0, 70000.0, -40000.0, 5000000000.0, -5000000000.0, 1e20, 0.1];
    for b in SPECIAL_BITS {
        let x = f64::from_bits(b);
        vals.push(num(&[], &[x]));
        vals.push(num(&[1], &[x]));
        for c in companions {
            vals.push(num(&[2], &[x, c]));
        }
    }
    vals.push(num(&[4], &[f64::from_bits(0x7ff8_0000_0000_0003), 0.5, -0.0, f64::from_bits(0x36a0_0000_0000_0000)]));
    vals.push(cplx(&[2], &[Complex::new(f64::from_bits(0x7ff8_0000_0000_0003), -0.0), Complex::new(f64::from_bits(0xfff0_0000_0000_0001), 5e-324)]));
    vals
}

fn nest(mut v: Value, n: usize) -> Value {
    for _ in 0..n {
        v = boxes(&[], vec![v]);
    }
    v
}

// ------------------------------------------------------------------ search

struct Out {
    evals: usize,
    per: BTreeMap<String, usize>,
    viol: usize,
}

impl Out {
    fn count(&mut self, codec: &str) {
        self.evals += 1;
        *self.per.entry(codec.to_string()).or_default() += 1;
    }
    fn violation(&mut self, codec: &str, class: &str, input: &str, detail: &str, prog: &str) {
        self.viol += 1;
        println!(
            "{{\"violation\":{},\"class\":{},\"input\":{},\"detail\":{},\"prog\":{}}}",
            jstr(codec),
            jstr(class),
            jstr(input),
            jstr(detail),
            jstr(prog)
        );
    }
}

fn has_neg_zero(v: &Value) -> bool {
    match v {
        Value::Num(a) => a.elements().any(|x| *x == 0.0 && x.is_sign_negative()),
        Value::Complex(a) => a.elements().any(|c| (c.re == 0.0 && c.re.is_sign_negative()) || (c.im == 0.0 && c.im.is_sign_negative())),
        Value::Box(a) => a.elements().any(|b| has_neg_zero(&b.0)),
        _ => false,
    }
}

fn max_depth(v: &Value) -> usize {
    let inner = match v {
        Value::Box(a) => a.elements().map(|b| 1 + max_depth(&b.0)).max().unwrap_or(0),
        _ => 0,
    };
    let k = map_keys_of(v).map(|k| 1 + max_depth(&k)).unwrap_or(0);
    inner.max(k)
}

fn val_class(v: &Value) -> String {
    let mut s = String::from(v.type_name());
    if v.shape.iter().any(|d| *d == 0) {
        s.push_str("-empty");
    }
    if v.is_map() {
        s.push_str("-map");
    }
    if v.meta.label.is_some() {
        s.push_str("-label");
    }
    s
}

/// inputs of the defects repaired in round 3 (b303665 / 61cd68e negative zero, 6e1b98d empty complex
/// list, f005f5d escape followed by a grapheme-extending character): replayed first by binary and repr
fn regress_values() -> Vec<Value> {
    let w = f64::from_bits(0x7ff8_0000_0000_0003);
    let esc: Vec<char> = vec!['\u{383}', '\u{1f3fb}'];
    let esc2: Vec<char> = vec!['\u{7f}', '\u{301}', 'a', '\u{ffff}', '\u{200d}'];
    vec![
        num(&[], &[-0.0]),
        num(&[2], &[-0.0, 0.0]),
        num(&[2], &[-0.0, 5.0]),
        num(&[3], &[-0.0, -7.0, 300.0]),
        num(&[2], &[-0.0, 0.5]),
        cplx(&[2], &[Complex::new(-0.0, 1.0), Complex::new(0.0, -0.0)]),
        // 5fca0d7: the short forms i / ¯i only for the numbers they evaluate to (re +0 im 1, re ¯0 im ¯1)
        cplx(&[], &[Complex::new(-0.0, 1.0)]),
        cplx(&[], &[Complex::new(0.0, -1.0)]),
        cplx(&[4], &[Complex::new(0.0, 1.0), Complex::new(-0.0, -1.0), Complex::new(0.0, -1.0), Complex::new(-0.0, 1.0)]),
        cplx(&[0], &[]),
        cplx(&[0, 2], &[]),
        boxes(&[2], vec![cplx(&[0], &[]), num(&[1], &[-0.0])]),
        chars(&[2], &esc),
        chars(&[5], &esc2),
        boxes(&[2], vec![chars(&[2], &esc), chars(&[5], &esc2)]),
        num(&[], &[w]),
    ]
    .into_iter()
    .chain(joiner_run_values())
    .collect()
}

/// strings with RUNS of cluster-joining characters after an escaped character, at the start of the
/// string, boxed and in a rank-2 character array (repr must keep its escapes parseable)
fn joiner_run_values() -> Vec<Value> {
    let cs = |v: &[u32]| -> Vec<char> { v.iter().map(|c| char::from_u32(*c).unwrap()).collect() };
    let strs: Vec<Vec<char>> = vec![
        cs(&[0x0a, 0x93e, 0x93e, 0x61]),
        cs(&[0x22, 0x1f3fb, 0x1f3fc, 0x1f3fd]),
        cs(&[0x5c, 0x93e, 0x200d, 0x93e, 0x93e]),
        cs(&[0x93e, 0x93e, 0x61]),
        cs(&[0x1f3fb, 0x1f3fb, 0x1f3fb, 0x1f3fb]),
        cs(&[0x00, 0xfe0f, 0xfe0f, 0x301, 0x93e]),
        cs(&[0x09, 0x903, 0x903, 0x903, 0x0a, 0x1f3ff, 0x1f3fe]),
        cs(&[0x7f, 0x0bbe, 0x0bbe, 0x22, 0x0d3e, 0x0d3e, 0x0d3e]),
        cs(&[0x61, 0x0a, 0x1160, 0x11a8, 0x11a8]),
        cs(&[0xffff, 0x1f1e6, 0x1f1e6, 0x1f1e6]),
        cs(&[0x1b, 0xe0020, 0xe0020, 0xe007f]),
        cs(&[0x0d, 0x0a, 0x93e, 0x93e]),
    ];
    let mut vals: Vec<Value> = strs.iter().map(|c| chars(&[c.len()], c)).collect();
    vals.push(boxes(&[3], strs[..3].iter().map(|c| chars(&[c.len()], c)).collect()));
    vals.push(chars(&[2, 4], &cs(&[0x0a, 0x93e, 0x93e, 0x61, 0x22, 0x1f3fb, 0x1f3fc, 0x1f3fd])));
    vals.push(chars(&[3, 2], &cs(&[0x93e, 0x93e, 0x09, 0x93f, 0x93f, 0x93e])));
    vals.push(chars(&[], &cs(&[0x93e])));
    vals
}

fn search_binary(r: &mut Rng, n: usize, o: &mut Out) {
    let mut vals = regress_values();
    vals.extend(op_values());
    vals.extend(boundary_values());
    for d in [1usize, 5, 30, 31, 32, 33, 34, 40] {
        vals.push(nest(num(&[2], &[1.0, 2.5]), d));
    }
    // rank up to 255 / 256
    vals.push(num(&vec![1usize; 255], &[7.0]));
    vals.push(num(&vec![1usize; 256], &[7.0]));
    for _ in 0..n {
        vals.push(gen_val(r, 0, 4));
    }
    for v in &vals {
        o.count("binary");
        let enc = run1("binary", &[v.clone()]);
        match enc {
            Err(e) => {
                // documented: rank > 255, very deep nesting, handles/pointers
                let ok = (v.rank() > 255 && e.contains("Rank")) || (max_depth(v) > 32 && e.contains("too deep"));
                if !ok {
                    o.violation("binary", &format!("encode-error-{}", val_class(v)), &describe(v), &e, "binary");
                }
            }
            Ok(bytes) => match run1("°binary", &[bytes.clone()]) {
                Err(e) => o.violation("binary", &format!("decode-error-{}", val_class(v)), &describe(v), &e, "°binary binary"),
                Ok(back) => {
                    if let Err((k, e)) = same(v, &back, 0) {
                        o.violation("binary", &k, &describe(v), &format!("{e}; got {}", describe(&back)), "°binary binary");
                    } else if let Err((k, e)) = same(v, &back, 2) {
                        o.violation("binary", &k, &describe(v), &format!("{e}; got {}", describe(&back)), "°binary binary");
                    }
                }
            },
        }
    }
}

fn search_repr(r: &mut Rng, n: usize, o: &mut Out) {
    let mut vals = regress_values();
    vals.extend(op_values());
    for _ in 0..n {
        vals.push(gen_val(r, 0, 4));
    }
    for v in &vals {
        o.count("repr");
        let txt = match run1("repr", &[v.clone()]) {
            Ok(t) => t,
            Err(e) => {
                o.violation("repr", &format!("repr-error-{}", val_class(v)), &describe(v), &e, "repr");
                continue;
            }
        };
        let src = match &txt {
            Value::Char(a) => a.elements().collect::<String>(),
            _ => {
                o.violation("repr", "repr-not-string", &describe(v), "", "repr");
                continue;
            }
        };
        match run_uiua(&format!("{EXP}{src}")) {
            Err(e) => o.violation("repr", &format!("eval-error-{}", val_class(v)), &describe(v), &format!("text {src:?}: {e}"), "repr"),
            Ok(st) => {
                if st.len() != 1 {
                    o.violation("repr", &format!("eval-stack-{}", val_class(v)), &describe(v), &format!("text {src:?} gives {} values", st.len()), "repr");
                } else if let Err((k, e)) = same(v, &st[0], 0) {
                    o.violation("repr", &k, &describe(v), &format!("text {src:?}: {e}; got {}", describe(&st[0])), "repr");
                } else if let Err((k, e)) = same(v, &st[0], 1) {
                    o.violation("repr", &k, &describe(v), &format!("text {src:?}: {e}"), "repr");
                }
            }
        }
    }
}

fn float_class(x: f64) -> &'static str {
    if x == 0.0 {
        if x.is_sign_negative() { "negzero" } else { "zero" }
    } else if x.fract() == 0.0 {
        if x.abs() < 9007199254740992.0 { "int53" } else { "bigint" }
    } else if x.abs() < f64::MIN_POSITIVE {
        "subnormal"
    } else if x.abs() < 1e-4 {
        "small"
    } else if x.abs() >= 1e15 {
        "large"
    } else {
        "fraction"
    }
}

fn search_numbers(r: &mut Rng, n: usize, o: &mut Out) {
    for i in 0..n {
        let x = if i < 200 { gen_bin_num(r, i % 12) } else { gen_finite_f64(r) };
        if !x.is_finite() {
            continue;
        }
        o.count("parse");
        // °⋕ then ⋕
        match run1("⋕°⋕", &[num(&[], &[x])]) {
            Err(e) => o.violation("parse", &format!("error-{}", float_class(x)), &format!("{x:?} bits {:#x}", x.to_bits()), &e, "⋕°⋕"),
            Ok(back) => {
                let y = floats_of(&back);
                if y.len() != 1 || y[0] != x {
                    let txt = run1("°⋕", &[num(&[], &[x])]).map(|t| format!("{t:?}")).unwrap_or_default();
                    o.violation("parse", float_class(x), &format!("{x:?} bits {:#x}", x.to_bits()), &format!("printed {txt} parsed {y:?}"), "⋕°⋕");
                } else if y[0].to_bits() != x.to_bits() {
                    o.violation("parse-bits", float_class(x), &format!("{x:?}"), &format!("parsed {:?}", y[0]), "⋕°⋕");
                }
            }
        }
        // parse accepts what the number formatter (repr) prints
        o.count("parse-repr");
        if let Ok(Value::Char(t)) = run1("repr", &[num(&[], &[x])]) {
            let s: String = t.elements().collect();
            match run_uiua(&s) {
                Ok(st) if st.len() == 1 && floats_of(&st[0]).first().map(|y| y.to_bits()) == Some(x.to_bits()) => {}
                Ok(st) if st.len() == 1 && floats_of(&st[0]).first().copied() == Some(x) => {
                    o.violation("repr", "negzero", &format!("{x:?}"), &format!("text {s:?}"), "repr")
                }
                other => o.violation("repr-number", float_class(x), &format!("{x:?} bits {:#x}", x.to_bits()), &format!("text {s:?} evaluates to {:?}", other.map(|st| st.iter().map(|v| format!("{v:?}")).collect::<Vec<_>>())), "repr"),
            }
        }
    }
    // arrays: °⋕ boxes each string, ⋕ un-boxes (first the shapes of the repaired defect 0d74fe9)
    let fixed_shapes: [&[usize]; 5] = [&[0, 3], &[0, 1], &[2, 0], &[0], &[0, 2, 2]];
    for i in 0..n / 10 + fixed_shapes.len() {
        let sh = if i < fixed_shapes.len() { fixed_shapes[i].to_vec() } else { gen_shape_r(r, 2, 3) };
        let d: Vec<f64> = (0..shape_len(&sh)).map(|_| gen_finite_f64(r)).collect();
        let v = num(&sh, &d);
        o.count("parse-array");
        match run1("⋕°⋕", &[v.clone()]) {
            Err(e) => o.violation("parse-array", if shape_len(&sh) == 0 { "error-empty" } else { "error" }, &describe(&v), &e, "⋕°⋕"),
            Ok(back) => {
                if let Err((k, e)) = same(&v, &back, 0) {
                    o.violation("parse-array", &k, &describe(&v), &format!("{e}; got {}", describe(&back)), "⋕°⋕");
                }
            }
        }
    }
}

fn search_text(r: &mut Rng, n: usize, o: &mut Out) {
    let fixed: Vec<Vec<char>> = joiner_run_values()
        .into_iter()
        .filter_map(|v| match &v {
            Value::Char(a) if v.rank() == 1 => Some(a.elements().copied().collect()),
            _ => None,
        })
        .collect();
    for i in 0..n + fixed.len() {
        let s = if i < fixed.len() { fixed[i].clone() } else { gen_string(r, 8) };
        let v = chars(&[s.len()], &s);
        for (codec, prog) in [("utf8", "°utf₈ utf₈"), ("utf16", "°utf₁₆ utf₁₆"), ("graphemes", "°graphemes graphemes")] {
            o.count(codec);
            match run1(prog, &[v.clone()]) {
                Err(e) => o.violation(codec, if s.is_empty() { "error-empty" } else { "error" }, &format!("{s:?}"), &e, prog),
                Ok(back) => {
                    if let Err((k, e)) = same(&v, &back, 0) {
                        o.violation(codec, &k, &format!("{s:?}"), &format!("{e}; got {}", describe(&back)), prog);
                    }
                }
            }
        }
        // the other direction on valid encodings
        let st: String = s.iter().collect();
        let bytes = byte(&[st.len()], st.as_bytes());
        o.count("utf8-rev");
        match run1("utf₈ °utf₈", &[bytes.clone()]) {
            Ok(back) if back == bytes => {}
            other => o.violation("utf8-rev", "general", &format!("{:?}", st.as_bytes()), &format!("{other:?}"), "utf₈ °utf₈"),
        }
    }
}

fn search_bits_base(r: &mut Rng, n: usize, o: &mut Out) {
    for _ in 0..n {
        let sh = gen_shape_r(r, 3, 3);
        let neg = r.chance(1, 4);
        let d: Vec<f64> = (0..shape_len(&sh)).map(|_| gen_nat53(r) as f64 * if neg && r.chance(1, 2) { -1.0 } else { 1.0 }).collect();
        let v = num(&sh, &d);
        let class = format!("{}{}", if neg { "integers" } else { "naturals" }, if shape_len(&sh) == 0 { "-empty" } else { "" });
        o.count("bits");
        match run1("°⋯⋯", &[v.clone()]) {
            Err(e) => o.violation("bits", &format!("error-{class}"), &describe(&v), &e, "°⋯⋯"),
            Ok(back) => {
                if let Err((_, e)) = same(&v, &back, 0) {
                    o.violation("bits", &class, &describe(&v), &format!("{e}; got {}", describe(&back)), "°⋯⋯");
                }
            }
        }
        if neg {
            continue;
        }
        let base = match r.below(6) {
            0 => 2.0,
            1 => 10.0,
            2 => 16.0,
            3 => 3.0,
            4 => r.range(2, 40) as f64,
            _ => r.range(2, 100000) as f64,
        };
        o.count("base");
        match run1("⌝⊥⟜⊥", &[v.clone(), num(&[], &[base])]) {
            Err(e) => o.violation("base", &format!("error-{class}"), &format!("base {base} of {}", describe(&v)), &e, "⌝⊥⟜⊥"),
            Ok(back) => {
                if let Err((_, e)) = same(&v, &back, 0) {
                    // shrink: find the first element that fails alone
                    let mut detail = format!("{e}; got {}", describe(&back));
                    let mut cls = "general".to_string();
                    for x in &d {
                        if let Ok(b1) = run1("⌝⊥⟜⊥", &[num(&[], &[*x]), num(&[], &[base])]) {
                            if floats_of(&b1) != vec![*x] {
                                let digits = run1("⊥", &[num(&[], &[*x]), num(&[], &[base])]).map(|d| format!("{d:?}")).unwrap_or_default();
                                detail = format!("⊥ {base} {x} = {digits}, ⌝⊥ gives {:?}", floats_of(&b1));
                                let is_pow = {
                                    let mut p = 1.0;
                                    while p < *x {
                                        p *= base;
                                    }
                                    p == *x
                                };
                                cls = if is_pow { "exact-power".into() } else if *x >= 4503599627370496.0 { "above-2^52".into() } else { "other".into() };
                                break;
                            }
                        }
                    }
                    o.violation("base", &cls, &format!("base {base} of {}", describe(&v)), &detail, "⌝⊥⟜⊥");
                }
            }
        }
    }
    // exact powers of the base: digit-count boundary
    for base in [2u64, 3, 5, 6, 7, 10, 12, 16, 36, 60, 100, 256, 1000] {
        let mut p = 1u64;
        while p < (1 << 53) / base {
            p *= base;
            for x in [p - 1, p, p + 1] {
                o.count("base");
                let (bv, xv) = (num(&[], &[base as f64]), num(&[], &[x as f64]));
                match run1("⌝⊥⟜⊥", &[xv.clone(), bv.clone()]) {
                    Ok(back) if floats_of(&back) == vec![x as f64] => {}
                    other => {
                        let digits = run1("⊥", &[xv, bv]).map(|d| format!("{d:?}")).unwrap_or_default();
                        let cls = if x == p { "exact-power" } else { "near-power" };
                        o.violation("base", cls, &format!("base {base} of {x}"), &format!("digits {digits}; round trip {:?}", other.map(|v| floats_of(&v))), "⌝⊥⟜⊥");
                    }
                }
            }
        }
    }
}

fn search_json_csv(r: &mut Rng, n: usize, o: &mut Out) {
    // JSON: what the documentation shows: lists of numbers, strings, boxed lists of those, maps with string keys
    fn gen_json(r: &mut Rng, depth: usize) -> Value {
        match r.below(if depth < 2 { 6 } else { 3 }) {
            0 => {
                let n = r.below(5);
                num(&[n], &(0..n).map(|_| gen_finite_f64(r)).collect::<Vec<_>>())
            }
            1 => {
                let s = gen_string(r, 6);
                chars(&[s.len()], &s)
            }
            2 => {
                let n = r.below(4);
                byte(&[n], &(0..n).map(|_| r.below(256) as u8).collect::<Vec<_>>())
            }
            3 | 4 => {
                // boxed list with at least one string and one list so that it stays boxed
                let n = 2 + r.below(3);
                let mut items: Vec<Value> = (0..n).map(|_| gen_json(r, depth + 1)).collect();
                items[0] = Value::from("s");
                items[1] = num(&[2], &[1.0, 2.5]);
                boxes(&[n], items)
            }
            _ => {
                let n = 1 + r.below(3);
                let mut items: Vec<Value> = (0..n).map(|_| gen_json(r, depth + 1)).collect();
                if n >= 2 {
                    items[0] = Value::from("s");
                    items[1] = num(&[2], &[1.0, 2.5]);
                }
                let keys = boxes(&[n], (0..n).map(|i| Value::from(format!("{}{i}", *r.pick(&["a", "b", "key", "é"])))).collect());
                run1("map", &[boxes(&[n], items), keys]).unwrap_or_else(|_| Value::from("x"))
            }
        }
    }
    for _ in 0..n {
        let v = gen_json(r, 0);
        o.count("json");
        let class = format!("{}{}", v.type_name(), if v.is_map() { "-map" } else { "" });
        match run1("°json json", &[v.clone()]) {
            Err(e) => o.violation("json", &format!("error-{class}"), &describe(&v), &e, "°json json"),
            Ok(back) => {
                if let Err((k, e)) = same(&v, &back, 0) {
                    let txt = run1("json", &[v.clone()]).map(|t| format!("{t:?}")).unwrap_or_default();
                    o.violation("json", &k, &describe(&v), &format!("{e}; json {txt}; got {}", describe(&back)), "°json json");
                }
            }
        }
    }
    // CSV: "the decoding result will always be a rank-2 array of boxed strings"
    for _ in 0..n {
        let rows = 1 + r.below(3);
        let cols = 1 + r.below(3);
        let cells: Vec<Value> = (0..rows * cols)
            .map(|_| {
                let s: Vec<char> = if r.chance(1, 2) {
                    gen_string(r, 4)
                } else {
                    let n = r.below(5);
                    (0..n).map(|_| *r.pick(&['a', 'b', '1', ',', '"', ' ', '\n', ';', 'é', '\r', '\''])).collect()
                };
                chars(&[s.len()], &s)
            })
            .collect();
        let v = boxes(&[rows, cols], cells.clone());
        o.count("csv");
        let all_empty_row = (0..rows).any(|i| (0..cols).all(|j| cells[i * cols + j].row_count() == 0));
        let has_cr = cells.iter().any(|c| format!("{c:?}").contains("\\r"));
        let class = if all_empty_row { "empty-row" } else if has_cr { "carriage-return" } else { "general" };
        match run1("°csv csv", &[v.clone()]) {
            Err(e) => o.violation("csv", &format!("error-{class}"), &describe(&v), &e, "°csv csv"),
            Ok(back) => {
                if let Err((_, e)) = same(&v, &back, 0) {
                    let txt = run1("csv", &[v.clone()]).map(|t| format!("{t:?}")).unwrap_or_default();
                    o.violation("csv", class, &describe(&v), &format!("{e}; csv {txt}; got {}", describe(&back)), "°csv csv");
                }
            }
        }
    }
}

fn search_compress_bytes(r: &mut Rng, n: usize, o: &mut Out) {
    for i in 0..n {
        let len = match r.below(5) {
            0 => 0,
            1 => r.below(4),
            2 => r.below(40),
            3 => r.below(400),
            _ => r.below(5000),
        };
        let lowent = r.chance(1, 2);
        let d: Vec<u8> = (0..len).map(|_| if lowent { r.below(3) as u8 } else { r.below(256) as u8 }).collect();
        let v = byte(&[len], &d);
        let algo = ["gzip", "zlib", "deflate"][i % 3];
        let class = format!("{algo}{}", if len == 0 { "-empty" } else { "" });
        o.count("compress");
        match run1(&format!("⌝compress \"{algo}\" compress \"{algo}\""), &[v.clone()]) {
            Ok(back) if same(&v, &back, 0).is_ok() => {}
            other => o.violation("compress", &class, &format!("{len} bytes"), &format!("{:?}", other.map(|b| describe(&b))), "⌝compress compress"),
        }
        match run_uiua_with(&format!("°compress compress \"{algo}\""), &[v.clone()]) {
            Ok(st) if st.len() == 2 && same(&v, &st[0], 0).is_ok() && st[1] == Value::from(algo) => {}
            Ok(st) if st.len() == 2 && same(&v, &st[1], 0).is_ok() && st[0] == Value::from(algo) => {}
            other => o.violation("uncompress", &class, &format!("{len} bytes {:?}", &d[..len.min(12)]), &format!("{:?}", other.map(|st| st.iter().map(describe).collect::<Vec<_>>())), "°compress compress"),
        }
    }
    // bytes formats
    let fmts: [(&str, f64, f64, bool); 12] = [
        ("u8", 0.0, 255.0, true),
        ("i8", -128.0, 127.0, true),
        ("u16", 0.0, 65535.0, true),
        ("i16", -32768.0, 32767.0, true),
        ("u32", 0.0, 4294967295.0, true),
        ("i32", -2147483648.0, 2147483647.0, true),
        ("u64", 0.0, 9007199254740992.0, true),
        ("i64", -9007199254740992.0, 9007199254740992.0, true),
        ("u128", 0.0, 9007199254740992.0, true),
        ("i128", -9007199254740992.0, 9007199254740992.0, true),
        ("f32", 0.0, 0.0, false),
        ("f64", 0.0, 0.0, false),
    ];
    for i in 0..n {
        let (f, lo, hi, int) = fmts[i % 12];
        let side = ["", "⌞", "⌟"][(i / 12) % 3];
        let sh = gen_shape_r(r, 3, 3);
        let as_bytes = int && lo == 0.0 && hi >= 255.0 && r.chance(1, 3) || f == "i8" && r.chance(1, 3);
        let d: Vec<f64> = (0..shape_len(&sh))
            .map(|_| {
                if as_bytes {
                    r.below(if f == "i8" { 128 } else { 256 }) as f64
                } else if int {
                    match r.below(4) {
                        0 => lo,
                        1 => hi,
                        2 => (lo + (r.next() >> 11) as f64 % (hi - lo + 1.0)).floor().clamp(lo, hi),
                        _ => r.range(-3, 3) as f64,
                    }
                    .clamp(lo, hi)
                } else if f == "f32" {
                    ((if r.chance(1, 3) { gen_special(r) } else { gen_bin_any(r) }) as f32) as f64
                } else if r.chance(1, 3) {
                    gen_special(r)
                } else {
                    gen_bin_any(r)
                }
            })
            .collect();
        let v = if as_bytes { byte(&sh, &d.iter().map(|x| *x as u8).collect::<Vec<_>>()) } else { num(&sh, &d) };
        let fv = Value::from(f);
        o.count("bytes");
        let prog = format!("⌝bytes{side}⟜bytes{side}");
        let class = format!("{f}{}{}", if sh.is_empty() { "-scalar" } else { "" }, if !sh.is_empty() && shape_len(&sh) == 0 { "-empty" } else { "" });
        match run1(&prog, &[v.clone(), fv.clone()]) {
            Err(e) => o.violation("bytes", &format!("error-{class}"), &format!("{f}{side} {}", describe(&v)), &e, &prog),
            Ok(back) => {
                if let Err((k, e)) = same(&v, &back, if int { 0 } else { 2 }) {
                    let class = if k == "nan-bits" || k.starts_with("negzero") || k == "bits" { format!("{class}-{k}") } else { class.clone() };
                    o.violation("bytes", &class, &format!("{f}{side} {}", describe(&v)), &format!("{e}; got {}", describe(&back)), &prog);
                }
            }
        }
    }
}

/// a box header of rank 129 whose dimensions overflow usize before a zero dimension is reached
fn overflowing_shape_bytes() -> Vec<u8> {
    let mut b = vec![32u8, 129];
    for _ in 0..128 {
        b.extend([255u8, 255, 255, 255]);
    }
    b.extend([0u8, 0, 0, 0]);
    b
}

const ABORT_BYTES: [u8; 12] = [32, 2, 255, 255, 255, 127, 16, 0, 0, 0, 0, 0];

/// fixed regression corpus: the inputs of the defects repaired in /repo (dfd90e9, 821d336, 5718f7d); runs first
fn regress(o: &mut Out) {
    for (base, x) in [(3.0, 243.0), (100.0, 1000000.0), (12.0, 35831808.0), (3.0, 617673396283948.0), (12.0, 1283918464548865.0), (10.0, 1000.0), (2.0, 4503599627370496.0)] {
        o.count("base");
        let (bv, xv) = (num(&[], &[base]), num(&[], &[x]));
        match run1("⌝⊥⟜⊥", &[xv.clone(), bv.clone()]) {
            Ok(back) if floats_of(&back) == vec![x] => {}
            other => {
                let digits = run1("⊥", &[xv, bv]).map(|d| format!("{d:?}")).unwrap_or_default();
                o.violation("base", "exact-power", &format!("base {base} of {x}"), &format!("digits {digits}; round trip {:?}", other.map(|v| floats_of(&v))), "⌝⊥⟜⊥");
            }
        }
    }
    let i8s = [num(&[3], &[1.0, 2.0, 3.0]), num(&[2, 1], &[1.0, 2.0]), num(&[0], &[]), num(&[0, 1], &[]), num(&[], &[-128.0]), num(&[1, 1, 1], &[127.0]), byte(&[2], &[5, 200])];
    for v in &i8s {
        for side in ["", "⌞", "⌟"] {
            o.count("bytes");
            let prog = format!("⌝bytes{side}⟜bytes{side}");
            // byte arrays are clamped to 127 by the i8 encoder (documented: "clamped to the range")
            let want = match v {
                Value::Byte(_) => num(&[2], &[5.0, 127.0]),
                _ => v.clone(),
            };
            match run1(&prog, &[v.clone(), Value::from("i8")]) {
                Err(e) => o.violation("bytes", "error-i8", &format!("i8{side} {}", describe(v)), &e, &prog),
                Ok(back) => {
                    if let Err((_, e)) = same(&want, &back, 0) {
                        o.violation("bytes", "i8", &format!("i8{side} {}", describe(v)), &format!("{e}; got {}", describe(&back)), &prog);
                    }
                }
            }
        }
    }
    for (bytes, name) in [(ABORT_BYTES.to_vec(), "abort"), (overflowing_shape_bytes(), "overflow")] {
        o.count("unbinary");
        let arg = bytes.iter().map(|b| b.to_string()).collect::<Vec<_>>().join(",");
        let exe = std::env::current_exe().unwrap();
        let shown = format!("{:?}…({} bytes, {name})", &bytes[..12], bytes.len());
        match std::process::Command::new(exe).args(["unbin", &arg]).output() {
            Ok(out) if out.status.success() => {
                let line = String::from_utf8_lossy(&out.stdout).to_string();
                if line.contains("interpreter has crashed") {
                    o.violation("unbinary", "panic-on-malformed-shape", &shown, &line.chars().take(300).collect::<String>(), "°binary");
                }
            }
            Ok(out) => o.violation(
                "unbinary",
                "process-abort-on-box-count",
                &shown,
                String::from_utf8_lossy(&out.stderr).lines().next().unwrap_or(""),
                "°binary",
            ),
            Err(e) => o.violation("unbinary", "spawn-failed", &shown, &e.to_string(), "°binary"),
        }
    }
}

// ------------------------------------------------------------------ tie

fn emit(kind: &str, fields: &[(&str, String)]) {
    let mut s = format!("{{\"k\":\"{kind}\"");
    for (k, v) in fields {
        write!(s, ",\"{k}\":{v}").unwrap();
    }
    s.push('}');
    println!("{s}");
}

fn res_ints(res: &Result<Value, String>) -> String {
    match res {
        Ok(v) => match ints_of(v) {
            Some(xs) => format!("{{\"sh\":{},\"d\":{}}}", jshape(v), jints(&xs)),
            None => "\"non-integer\"".into(),
        },
        Err(_) => "null".into(),
    }
}

fn tie(r: &mut Rng, n: usize) {
    // ---- bits / un-bits
    for i in 0..n {
        let sh = gen_shape_r(r, 3, 3);
        let neg = i % 3 == 0;
        let big = i % 11 == 0;
        let d: Vec<i128> = (0..shape_len(&sh))
            .map(|_| {
                let m = if big { (gen_nat53(r) as i128) << r.below(60) } else { gen_nat53(r) as i128 };
                if neg && r.chance(1, 2) { -m } else { m }
            })
            .collect();
        let df: Vec<f64> = d.iter().map(|x| *x as f64).collect();
        let d: Vec<i128> = df.iter().map(|x| *x as i128).collect();
        let v = num(&sh, &df);
        let out = run1("⋯", &[v.clone()]);
        emit("bits", &[("sh", jshape(&v)), ("d", jints(&d)), ("out", res_ints(&out))]);
        if let Ok(b) = out {
            let back = run1("°⋯", &[b.clone()]);
            emit("unbits", &[("sh", jshape(&b)), ("d", jints(&ints_of(&b).unwrap())), ("out", res_ints(&back))]);
        }
        // hand-made digit arrays (non-boolean digits)
        let sh2 = gen_shape_r(r, 3, 4);
        let d2: Vec<f64> = (0..shape_len(&sh2)).map(|_| r.range(-3, 5) as f64).collect();
        let v2 = num(&sh2, &d2);
        let back = run1("°⋯", &[v2.clone()]);
        emit("unbits", &[("sh", jshape(&v2)), ("d", jints(&ints_of(&v2).unwrap())), ("out", res_ints(&back))]);
    }
    // ---- utf8 / utf16
    for i in 0..n {
        let s = gen_string(r, 8);
        let cps = jlist(s.iter().map(|c| (*c as u32).to_string()));
        let v = chars(&[s.len()], &s);
        let out = run1("utf₈", &[v.clone()]);
        emit("utf8", &[("cps", cps.clone()), ("out", res_ints(&out))]);
        let out16 = run1("utf₁₆", &[v.clone()]);
        emit("utf16", &[("cps", cps.clone()), ("out", res_ints(&out16))]);
        // decoders on produced, mutated and random encodings
        let mut bytes: Vec<u8> = s.iter().collect::<String>().into_bytes();
        match i % 4 {
            0 => {}
            1 => {
                if !bytes.is_empty() {
                    let k = r.below(bytes.len());
                    bytes[k] = *r.pick(&[0x80u8, 0xbf, 0xc0, 0xc1, 0xc2, 0xe0, 0xed, 0xf0, 0xf4, 0xf5, 0xff, 0x7f, 0xa0, 0x9f, 0x90, 0x8f]);
                }
            }
            2 => {
                if !bytes.is_empty() {
                    let k = r.below(bytes.len());
                    bytes.truncate(k);
                }
            }
            _ => {
                let hand: [&[u8]; 16] = [
                    &[0xed, 0xa0, 0x80], &[0xed, 0x9f, 0xbf], &[0xe0, 0x80, 0x80], &[0xe0, 0xa0, 0x80], &[0xf0, 0x80, 0x80, 0x80], &[0xf0, 0x90, 0x80, 0x80],
                    &[0xf4, 0x8f, 0xbf, 0xbf], &[0xf4, 0x90, 0x80, 0x80], &[0xc0, 0x80], &[0xc1, 0xbf], &[0xc2, 0x80], &[0xdf, 0xbf], &[0xef, 0xbf, 0xbf],
                    &[0xf5, 0x80, 0x80, 0x80], &[0xee, 0x80, 0x80], &[0xc2],
                ];
                bytes.extend_from_slice(hand[r.below(16)]);
            }
        }
        let bv = byte(&[bytes.len()], &bytes);
        let dec = run1("°utf₈", &[bv]);
        let out = match &dec {
            Ok(Value::Char(a)) => jlist(a.elements().map(|c| (*c as u32).to_string())),
            Ok(_) => "\"non-char\"".into(),
            Err(_) => "null".into(),
        };
        emit("unutf8", &[("bytes", jlist(bytes.iter().map(|b| b.to_string()))), ("out", out)]);
        let mut units: Vec<u16> = s.iter().collect::<String>().encode_utf16().collect();
        match i % 4 {
            0 => {}
            1 => {
                if !units.is_empty() {
                    let k = r.below(units.len());
                    units[k] = *r.pick(&[0xd800u16, 0xdbff, 0xdc00, 0xdfff, 0xd7ff, 0xe000, 0xffff, 0x41]);
                }
            }
            2 => {
                if !units.is_empty() {
                    let k = r.below(units.len());
                    units.truncate(k);
                }
            }
            _ => {
                let k = r.below(units.len() + 1);
                units.insert(k, *r.pick(&[0xd800u16, 0xdc00, 0xdbff, 0xdfff]));
            }
        }
        let uv = num(&[units.len()], &units.iter().map(|u| *u as f64).collect::<Vec<_>>());
        let dec = run1("°utf₁₆", &[uv]);
        let out = match &dec {
            Ok(Value::Char(a)) => jlist(a.elements().map(|c| (*c as u32).to_string())),
            Ok(_) => "\"non-char\"".into(),
            Err(_) => "null".into(),
        };
        emit("unutf16", &[("units", jlist(units.iter().map(|b| b.to_string()))), ("out", out)]);
    }
    // ---- base / anti-base with a scalar base: small numbers (digit count from float logs is tied separately)
    for _ in 0..n {
        let base = match r.below(5) {
            0 => 2,
            1 => 10,
            2 => 16,
            3 => r.range(2, 40),
            _ => r.range(2, 70000),
        };
        let sh = gen_shape_r(r, 2, 3);
        let neg = r.chance(1, 5);
        let d: Vec<i128> = (0..shape_len(&sh)).map(|_| (gen_nat53(r) as i128) * if neg && r.chance(1, 2) { -1 } else { 1 }).collect();
        let v = num(&sh, &d.iter().map(|x| *x as f64).collect::<Vec<_>>());
        let out = run1("⊥", &[v.clone(), num(&[], &[base as f64])]);
        emit("base", &[("b", base.to_string()), ("sh", jshape(&v)), ("d", jints(&d)), ("out", res_ints(&out))]);
        let sh2 = gen_shape_r(r, 3, 4);
        let d2: Vec<f64> = (0..shape_len(&sh2)).map(|_| r.range(-2, base.min(300)) as f64).collect();
        let v2 = num(&sh2, &d2);
        let back = run1("⌝⊥", &[v2.clone(), num(&[], &[base as f64])]);
        emit("antibase", &[("b", base.to_string()), ("sh", jshape(&v2)), ("d", jints(&ints_of(&v2).unwrap())), ("out", res_ints(&back))]);
    }
    // fixed cases: exact powers of the base (pins the row length the implementation computes)
    for (base, x) in [(3i64, 243i128), (3, 242), (100, 1000000), (12, 35831808), (10, 1000), (2, 1024)] {
        let v = num(&[], &[x as f64]);
        let out = run1("⊥", &[v.clone(), num(&[], &[base as f64])]);
        emit("base", &[("b", base.to_string()), ("sh", jshape(&v)), ("d", jints(&[x])), ("out", res_ints(&out))]);
    }
    // fixed: the i8 shapes of the repaired defect
    for (sh, d) in [(vec![3usize], vec![1.0, 2.0, -3.0]), (vec![2, 1], vec![1.0, 2.0]), (vec![0], vec![]), (vec![], vec![-128.0]), (vec![1, 1, 1], vec![127.0])] {
        for side in 0..3usize {
            let sd = ["", "⌞", "⌟"][side];
            let v = num(&sh, &d);
            let out = run1(&format!("bytes{sd}"), &[v.clone(), Value::from("i8")]);
            emit("bytes", &[("f", jstr("i8")), ("side", side.to_string()), ("sh", jshape(&v)), ("d", jints(&d.iter().map(|x| *x as i128).collect::<Vec<_>>())), ("out", res_ints(&out))]);
            if let Ok(b) = out {
                let back = run1(&format!("⌝bytes{sd}"), &[b.clone(), Value::from("i8")]);
                emit("unbytes", &[("f", jstr("i8")), ("side", side.to_string()), ("sh", jshape(&b)), ("d", jints(&ints_of(&b).unwrap())), ("out", res_ints(&back))]);
            }
        }
    }
    // ---- bytes formats (integers; sides: 0 native, 1 little, 2 big)
    let fmts = ["u8", "i8", "u16", "i16", "u32", "i32", "u64", "i64", "u128", "i128"];
    for i in 0..n {
        let f = fmts[i % fmts.len()];
        let side = (i / fmts.len()) % 3;
        let sd = ["", "⌞", "⌟"][side];
        let sh = gen_shape_r(r, 2, 3);
        let d: Vec<f64> = (0..shape_len(&sh))
            .map(|_| {
                let m = match r.below(5) {
                    0 => r.range(-3, 3) as f64,
                    1 => r.range(-40000, 70000) as f64,
                    2 => gen_nat53(r) as f64,
                    3 => -(gen_nat53(r) as f64),
                    _ => *r.pick(&[255.0, 256.0, -128.0, -129.0, 127.0, 128.0, 65535.0, 65536.0, -32768.0, -32769.0, 4294967295.0, 4294967296.0, -2147483648.0, 2147483648.0, 1e19, -1e19, 1e30, -1e30, 1e37, -1e37, 18446744073709551616.0, 9223372036854775808.0]),
                };
                m
            })
            .collect();
        let v = num(&sh, &d);
        let out = run1(&format!("bytes{sd}"), &[v.clone(), Value::from(f)]);
        emit("bytes", &[("f", jstr(f)), ("side", side.to_string()), ("sh", jshape(&v)), ("d", jints(&d.iter().map(|x| *x as i128).collect::<Vec<_>>())), ("out", res_ints(&out))]);
        if let Ok(b) = out {
            let back = run1(&format!("⌝bytes{sd}"), &[b.clone(), Value::from(f)]);
            let exact = match &back {
                Ok(x) => floats_of(x).iter().all(|y| y.abs() < 9007199254740992.0),
                Err(_) => true,
            };
            if exact {
                emit("unbytes", &[("f", jstr(f)), ("side", side.to_string()), ("sh", jshape(&b)), ("d", jints(&ints_of(&b).unwrap())), ("out", res_ints(&back))]);
            }
        }
    }
    // ---- binary: encoder bytes for generated values, decoder on produced / malformed bytes
    let mut vals = regress_values();
    vals.extend(op_values());
    vals.extend(boundary_values());
    for d in [1usize, 3, 31, 32, 33] {
        vals.push(nest(num(&[2], &[1.0, 2.5]), d));
    }
    for _ in 0..n {
        vals.push(gen_val(r, 0, 4));
    }
    for (i, v) in vals.iter().enumerate() {
        let out = run1("binary", &[v.clone()]);
        emit("binary", &[("v", jval(v)), ("out", res_ints(&out))]);
        if let Ok(b) = out {
            let mut bytes: Vec<u8> = ints_of(&b).unwrap().iter().map(|x| *x as u8).collect();
            match i % 5 {
                0 | 1 => {}
                2 => {
                    if !bytes.is_empty() {
                        let k = r.below(bytes.len());
                        bytes.truncate(k);
                    }
                }
                3 => {
                    if !bytes.is_empty() {
                        let k = r.below(bytes.len().min(12));
                        bytes[k] = *r.pick(&[0u8, 1, 2, 3, 4, 5, 6, 7, 8, 9, 10, 16, 32, 48, 128, 129, 144, 160, 255, 64]);
                    }
                }
                _ => {
                    let k = r.below(4);
                    bytes.extend(std::iter::repeat(7u8).take(k));
                }
            }
            if i % 5 >= 2 {
                // mutated encodings are decoded in a child process: a malformed element count can abort the process
                emit_unbinary_child(&bytes);
            } else {
                println!("{}", unbinary_line(&bytes));
            }
        }
    }
    // hand-made malformed encodings
    let hand: [&[u8]; 14] = [
        &[], &[10], &[0], &[0, 1], &[0, 1, 2, 0, 0, 0, 5], &[16, 1, 2, 0, 0, 0, 3, 0, 0, 0, 0xe2, 0x82, 0xac], &[16, 1, 1, 0, 0, 0, 3, 0, 0, 0, 0xe2, 0x82, 0xac],
        &[16, 1, 1, 0, 0, 0, 2, 0, 0, 0, 0xc0, 0x80], &[128, 16, 0, 0, 0, 0, 0, 0], &[128, 0, 2, 0, 0, 0, 0xff, 0xfe, 0, 0], &[32, 1, 1, 0, 0, 0], &[32, 1, 1, 0, 0, 0, 32, 0, 0, 0],
        &[48, 0, 1, 2, 3, 4, 5, 6, 7, 8, 9, 10, 11, 12, 13, 14, 15, 16], &[9, 0, 0, 0, 0, 0, 0, 0, 240],
    ];
    for h in hand {
        emit_unbinary_child(h);
    }
    // a box header that announces 2^35 elements
    emit_unbinary_child(&ABORT_BYTES);
    emit_unbinary_child(&overflowing_shape_bytes());
    // ---- numeric cast laws used as premises of the binary theorem: checked on floats here
    for i in 0..n * 2 {
        let x = if i % 2 == 0 { gen_bin_any(r) } else { f64::from_bits(r.next()) };
        let is_int = x.fract() == 0.0;
        let as_i = if is_int && x.abs() <= 18446744073709551616.0 { (x as i128).to_string() } else { "null".into() };
        let f32b = (x as f32).to_bits();
        let back = ((x as f32) as f64).to_bits();
        emit(
            "cast",
            &[("bits", x.to_bits().to_string()), ("int", as_i), ("nonneg", (x >= 0.0).to_string()), ("f32", f32b.to_string()), ("f32back", back.to_string())],
        );
    }
    for _ in 0..n {
        // integer -> f64 conversions used by the decoders (u64/i64 as f64 rounds to nearest even)
        let z: i128 = match r.below(4) {
            0 => r.next() as i128,
            1 => -((r.next() >> 1) as i128),
            2 => (gen_nat53(r) as i128) * if r.chance(1, 2) { -1 } else { 1 },
            _ => *r.pick(&[u64::MAX as i128, i64::MIN as i128, i64::MAX as i128, (1 << 53) + 1, (1 << 54) + 2, (1 << 54) + 6, -(1 << 53) - 1, 0]),
        };
        let f = if z >= 0 { z as u64 as f64 } else { z as i64 as f64 };
        emit("ofint", &[("z", z.to_string()), ("bits", f.to_bits().to_string())]);
        let u = r.next() as u32;
        let u = match r.below(4) {
            0 => u,
            1 => u & 0x807f_ffff,
            2 => u | 0x7f80_0000,
            _ => (1.5f32 * u as f32).to_bits(),
        };
        emit("of32", &[("f32", u.to_string()), ("bits", (f32::from_bits(u) as f64).to_bits().to_string())]);
    }
}

fn unbinary_line(bytes: &[u8]) -> String {
    let bv = byte(&[bytes.len()], bytes);
    let dec = run1("°binary", &[bv]);
    let out = match &dec {
        Ok(x) => jval(x),
        Err(_) => "null".into(),
    };
    format!(
        "{{\"k\":\"unbinary\",\"bytes\":{},\"out\":{out},\"err\":{}}}",
        jlist(bytes.iter().map(|b| b.to_string())),
        jstr(&dec.err().unwrap_or_default())
    )
}

fn emit_unbinary_child(bytes: &[u8]) {
    let arg = bytes.iter().map(|b| b.to_string()).collect::<Vec<_>>().join(",");
    let exe = std::env::current_exe().unwrap();
    match std::process::Command::new(exe).args(["unbin", &arg]).output() {
        Ok(o) if o.status.success() => print!("{}", String::from_utf8_lossy(&o.stdout)),
        Ok(o) => {
            let err = String::from_utf8_lossy(&o.stderr);
            println!(
                "{{\"k\":\"crash\",\"bytes\":{},\"status\":{},\"stderr\":{}}}",
                jlist(bytes.iter().map(|b| b.to_string())),
                jstr(&format!("{:?}", o.status)),
                jstr(err.lines().next().unwrap_or(""))
            );
        }
        Err(e) => println!("{{\"k\":\"crash\",\"bytes\":[],\"status\":\"spawn failed\",\"stderr\":{}}}", jstr(&e.to_string())),
    }
}

fn main() {
    let mode = std::env::args().nth(1).unwrap_or_default();
    let mut r = Rng::new(seed_from_env());
    match mode.as_str() {
        "eval" => {
            let src = std::env::args().nth(2).unwrap_or_default();
            match run_uiua(&src) {
                Ok(st) => {
                    for v in st {
                        println!("{}", describe(&v));
                    }
                }
                Err(e) => println!("ERROR: {e}"),
            }
        }
        "unbin" => {
            let arg = std::env::args().nth(2).unwrap_or_default();
            let bytes: Vec<u8> = arg.split(',').filter(|x| !x.is_empty()).map(|x| x.parse().unwrap()).collect();
            println!("{}", unbinary_line(&bytes));
        }
        "tie" => {
            let n: usize = std::env::args().nth(2).and_then(|s| s.parse().ok()).unwrap_or(100);
            tie(&mut r, n);
        }
        "search" => {
            let n: usize = std::env::args().nth(2).and_then(|s| s.parse().ok()).unwrap_or(100);
            let mut o = Out { evals: 0, per: BTreeMap::new(), viol: 0 };
            regress(&mut o);
            search_binary(&mut r.fork(), n, &mut o);
            search_repr(&mut r.fork(), n / 2, &mut o);
            search_numbers(&mut r.fork(), n * 2, &mut o);
            search_text(&mut r.fork(), n, &mut o);
            search_bits_base(&mut r.fork(), n, &mut o);
            search_json_csv(&mut r.fork(), n / 2, &mut o);
            search_compress_bytes(&mut r.fork(), n / 2, &mut o);
            let per = jlist(o.per.iter().map(|(k, v)| format!("[{},{v}]", jstr(k))));
            println!("{{\"evaluations\":{},\"violations\":{},\"per_codec\":{per}}}", o.evals, o.viol);
        }
        _ => eprintln!("usage: c18 eval SRC | tie N | search N"),
    }
}
