//! C17: a saved assembly (.uasm) runs exactly like the program it was compiled from.
//!   c17 search N [--corpus 0|1]  -> JSON lines: violations found on the implementation + summary
//!   c17 tie-values N             -> JSON lines: generated values, their serde_json text, what the text reads back as
//!   c17 tie-framing N            -> JSON lines: uasm texts (real and mutated) and the outcome of from_uasm
//!   c17 rt PROGRAM               -> print the uasm of a program and both runs (debugging aid)
use std::path::PathBuf;
use std::time::Duration;

use uiua::{Assembly, BindingKind, Compiler, Node, SafeSys, Uiua, Value};
use uvh::*;

const MARKERS: [&str; 10] = [
    "DEPENDENCIES",
    "EXPORTS",
    "BINDINGS",
    "FUNCTIONS",
    "INDEX MACROS",
    "CODE MACROS",
    "SPANS",
    "FILES",
    "MACRO EXPANSIONS",
    "STRING INPUTS",
];
/// markers that the mutated texts of the framing tie drop / duplicate / pad / swap
const MUT_MARKERS: [&str; 11] = [
    "DEPENDENCIES", "EXPORTS", "BINDINGS", "FUNCTIONS", "INDEX MACROS", "CODE MACROS", "SPANS", "FILES", "MACRO EXPANSIONS", "STRING INPUTS", "TEST ASSERTS",
];
const F64_SPELLINGS: [&str; 6] = ["NaN", "W", "empty", "tomb", "∞", "-∞"];

// ---------------------------------------------------------------- running

struct RunOut {
    res: Result<(), String>,
    stack: Vec<Value>,
    out: Vec<u8>,
}

fn run_asm_with(asm: &Assembly, args: &[Value]) -> RunOut {
    let mut env = Uiua::with_safe_sys().with_execution_limit(Duration::from_secs(2));
    for a in args {
        env.push(a.clone());
    }
    let asm = asm.clone();
    let res = match catch(|| env.run_asm(asm).map_err(|e| e.to_string())) {
        Ok(r) => r,
        Err(p) => Err(format!("PANIC: {p}")),
    };
    let stack = env.take_stack();
    let out = env.downcast_backend::<SafeSys>().map(|b| b.take_stdout()).unwrap_or_default();
    RunOut { res, stack, out }
}

fn class_of(v: &Value) -> u8 {
    match v {
        Value::Num(_) | Value::Byte(_) => 0,
        Value::Complex(_) => 1,
        Value::Char(_) => 2,
        Value::Box(_) => 3,
    }
}

fn describe(v: &Value) -> String {
    catch(|| format!("{:?} shape {:?} type {}", v, v.shape, v.type_name())).unwrap_or_else(|_| format!("<formatting panics> shape {:?}", v.shape))
}

/// same value, element class, shape, label/map-ness (through the printed form), recursively
fn same_value(a: &Value, b: &Value) -> Result<(), String> {
    if class_of(a) != class_of(b) {
        return Err(format!("type: {} vs {}", describe(a), describe(b)));
    }
    if a.shape != b.shape {
        return Err(format!("shape: {} vs {}", describe(a), describe(b)));
    }
    if a.meta.label != b.meta.label {
        return Err(format!("label: {:?} vs {:?}", a.meta.label, b.meta.label));
    }
    if a.is_map() != b.is_map() {
        return Err(format!("map-ness: {} vs {}", describe(a), describe(b)));
    }
    if let (Value::Box(x), Value::Box(y)) = (a, b) {
        for (p, q) in x.elements().zip(y.elements()) {
            same_value(&p.0, &q.0)?;
        }
    }
    let bits = |v: &Value| -> Vec<u64> {
        match v {
            Value::Num(a) => a.elements().map(|x| x.to_bits()).collect(),
            Value::Byte(a) => a.elements().map(|x| (*x as f64).to_bits()).collect(),
            Value::Complex(a) => a.elements().flat_map(|c| [c.re.to_bits(), c.im.to_bits()]).collect(),
            _ => vec![],
        }
    };
    // bit for bit: the sign and payload of every NaN, the sign of zero
    let (ba, bb) = (bits(a), bits(b));
    if ba != bb {
        return Err(format!("bits: {} vs {}", describe(a), describe(b)));
    }
    if a != b && ba.is_empty() {
        return Err(format!("value: {} vs {}", describe(a), describe(b)));
    }
    if a.show() != b.show() {
        return Err(format!("show: {:?} vs {:?}", a.show(), b.show()));
    }
    Ok(())
}

fn compare_runs(a: &RunOut, b: &RunOut) -> Result<(), (String, String)> {
    match (&a.res, &b.res) {
        (Ok(()), Ok(())) => {}
        (Err(x), Err(y)) if x == y => {}
        (x, y) => return Err(("error".into(), format!("original {x:?} vs re-read {y:?}"))),
    }
    // a run cut off by the execution limit stops at an arbitrary point: only the error is compared
    if let Err(e) = &a.res {
        if e.contains("Maximum execution time exceeded") {
            return Ok(());
        }
    }
    if a.stack.len() != b.stack.len() {
        return Err(("stack-len".into(), format!("{} vs {}", a.stack.len(), b.stack.len())));
    }
    for (x, y) in a.stack.iter().zip(&b.stack) {
        if let Err(d) = same_value(x, y) {
            return Err(("value".into(), d));
        }
    }
    if a.out != b.out {
        return Err((
            "output".into(),
            format!("{:?} vs {:?}", String::from_utf8_lossy(&a.out), String::from_utf8_lossy(&b.out)),
        ));
    }
    Ok(())
}

fn compile(src: &str) -> Option<Assembly> {
    let src = src.to_string();
    catch(move || {
        let mut comp = Compiler::with_backend(SafeSys::default());
        match comp.load_str(&src) {
            Ok(_) => Some(comp.finish()),
            Err(_) => None,
        }
    })
    .ok()
    .flatten()
}

// ---------------------------------------------------------------- marks of re-read constants

/// comparisons of adjacent rows (0 less, 1 equal, 2 greater), as the reader's scan sees them
fn adjacent_cmps(v: &Value) -> Vec<u8> {
    if v.rank() == 0 {
        return vec![];
    }
    let rows: Vec<Value> = v.rows().collect();
    rows.windows(2)
        .map(|w| match w[0].cmp(&w[1]) {
            std::cmp::Ordering::Less => 0,
            std::cmp::Ordering::Equal => 1,
            std::cmp::Ordering::Greater => 2,
        })
        .collect()
}

/// a re-read value must be well formed and carry exactly the truthful sortedness marks, at every depth
fn marks_truthful(v: &Value, path: &str) -> Result<(), String> {
    let cs = adjacent_cmps(v);
    let (up, down) = (cs.iter().all(|c| *c != 2), cs.iter().all(|c| *c != 0));
    let (_, fu, fd) = uiua::verif::flags(v);
    if v.rank() > 0 && (fu, fd) != (up, down) {
        return Err(format!("{path}: marks (sorted up {fu}, sorted down {fd}) but the rows are (up {up}, down {down}): {}", describe(v)));
    }
    if let Value::Box(a) = v {
        for (i, b) in a.elements().enumerate() {
            marks_truthful(&b.0, &format!("{path}[{i}]"))?;
        }
    }
    Ok(())
}

fn walk_node(n: &Node, f: &mut dyn FnMut(&Value)) {
    match n {
        Node::Run(ns) => {
            for x in ns.iter() {
                walk_node(x, f)
            }
        }
        Node::Push(v) => f(v),
        Node::Array { inner, .. } => walk_node(inner, f),
        Node::Mod(_, args, _) | Node::ImplMod(_, args, _) => {
            for a in args.iter() {
                walk_node(&a.node, f)
            }
        }
        Node::Switch { branches, .. } => {
            for a in branches.iter() {
                walk_node(&a.node, f)
            }
        }
        Node::NoInline(inner) => walk_node(inner, f),
        Node::TrackCaller(inner) => walk_node(&inner.node, f),
        Node::CustomInverse(ci, _) => {
            if let Ok(sn) = &ci.normal {
                walk_node(&sn.node, f)
            }
            for sn in ci.un.iter().chain(ci.anti.iter()) {
                walk_node(&sn.node, f)
            }
            if let Some((a, b)) = &ci.under {
                walk_node(&a.node, f);
                walk_node(&b.node, f);
            }
        }
        _ => {}
    }
}

/// every constant of an assembly: push nodes of the root and of the functions, constant bindings
fn constants(asm: &Assembly) -> Vec<Value> {
    let mut vs = Vec::new();
    let mut f = |v: &Value| vs.push(v.clone());
    walk_node(&asm.root, &mut f);
    for n in asm.functions.iter() {
        walk_node(n, &mut f);
    }
    for b in asm.bindings.iter() {
        match &b.kind {
            BindingKind::Const(Some(v)) => f(v),
            BindingKind::CodeMacro(n) => walk_node(n, &mut f),
            _ => {}
        }
    }
    vs
}

// ---------------------------------------------------------------- framing (classification only)

/// Classification of a failed read only: where a cascade of `split_once(marker)` on BARE words would cut
/// the text, compared with the whole-line markers (the defect repaired by /repo 0f91cb1: if the read fails
/// and a marker word occurs inside a section, the failure is reported under the old key).
fn marker_in_text(text: &str) -> Option<&'static str> {
    let mut pos = 0usize;
    for m in MARKERS {
        let line = format!("\n{m}\n");
        let want = text[pos..].find(&line).map(|i| pos + i + 1);
        let got = text[pos..].find(m).map(|i| pos + i);
        match (got, want) {
            (Some(g), Some(w)) if g == w => pos = g + m.len(),
            (None, None) if m == "STRING INPUTS" => {}
            _ => return Some(m),
        }
    }
    None
}

fn norm_msg(s: &str) -> String {
    let t: String = s.chars().map(|c| if c.is_ascii_digit() { '#' } else { c }).collect();
    t.chars().take(70).collect()
}

fn has_scalar_spelling(text: &str) -> Option<&'static str> {
    for s in F64_SPELLINGS {
        for pat in [format!(":\"{s}\"}}"), format!("const \"{s}\" "), format!(":\"{s}\","), format!("[[],\"{s}\"]")] {
            if text.contains(&pat) {
                return Some(s);
            }
        }
    }
    None
}

/// a float literal of the text that serde_json reads as another double than the one written
fn float_not_roundtrip(text: &str) -> Option<String> {
    let b: Vec<char> = text.chars().collect();
    let mut i = 0;
    while i < b.len() {
        if b[i].is_ascii_digit() || (b[i] == '-' && i + 1 < b.len() && b[i + 1].is_ascii_digit()) {
            let st = i;
            i += 1;
            while i < b.len() && (b[i].is_ascii_digit() || matches!(b[i], '.' | 'e' | 'E' | '-' | '+')) {
                i += 1;
            }
            let tok: String = b[st..i].iter().collect();
            if tok.contains('.') || tok.contains('e') {
                if let (Ok(x), Ok(y)) = (tok.parse::<f64>(), serde_json::from_str::<f64>(&tok)) {
                    if x.to_bits() != y.to_bits() {
                        return Some(tok);
                    }
                }
            }
        } else {
            i += 1;
        }
    }
    None
}

// ---------------------------------------------------------------- program generation

fn pick_s<'a>(r: &mut Rng, xs: &[&'a str]) -> &'a str {
    xs[r.below(xs.len())]
}

const NUMS: [&str; 30] = [
    "0", "1", "2", "3", "255", "256", "¯1", "0.5", "¯2.5", "1e300", "1e¯300", "∞", "¯∞", "NaN", "π", "η", "τ", "1/3", "¯0", "0.1", "3.141592653589793",
    "5e¯324", "1.7976931348623157e308", "4503599627370497", "1e16", "123456789012345680000", "0.30000000000000004", "2.2250738585072014e¯308", "e", "W",
];
const CPLX: [&str; 9] = ["ℂ1 2", "ℂ0 0", "i", "ℂ0.5 ¯1", "ℂ∞ 0", "ℂ1 ∞", "ℂNaN 1", "ℂNaN NaN", "ℂ¯∞ ¯∞"];
const CHARS: [&str; 10] = ["@a", "@\\n", "@\\0", "@λ", "@\\s", "@\"", "@\\\\", "@𝄞", "@\\x7f", "@ "];
const WORDS: [&str; 26] = [
    "hello",
    "",
    "a b",
    "DEPENDENCIES",
    "EXPORTS",
    "BINDINGS",
    "FUNCTIONS",
    "INDEX MACROS",
    "CODE MACROS",
    "SPANS",
    "FILES",
    "MACRO EXPANSIONS",
    "STRING INPUTS",
    "NaN",
    "∞",
    "-∞",
    "W",
    "empty",
    "tomb",
    "e",
    "comment: ",
    "private ",
    "λ→𝄞",
    "null",
    "x\u{301}\u{a0}\u{2028}y",
    "1 2",
];
const IDENTS: [&str; 14] = ["Foo", "X", "Dependencies", "DEPENDENCIES", "EXPORTS", "BINDINGS", "FUNCTIONS", "SPANS", "FILES", "INDEX", "MACROS", "Nan", "Empty", "W"];

fn gen_string_lit(r: &mut Rng) -> String {
    let mut w = pick_s(r, &WORDS).to_string();
    if r.chance(1, 4) {
        w = format!("{} {}", pick_s(r, &WORDS), w);
    }
    if r.chance(1, 6) {
        w.push_str(pick_s(r, &["\\n", "\\\"", "\\\\", "\\t", "\\0", "\\r", "_"]));
    }
    // the words contain no raw quote/backslash/newline
    format!("\"{w}\"")
}

fn gen_atom(r: &mut Rng) -> String {
    match r.below(16) {
        0..=3 => pick_s(r, &NUMS).to_string(),
        4 => pick_s(r, &CPLX).to_string(),
        5 => pick_s(r, &CHARS).to_string(),
        6..=9 => gen_string_lit(r),
        10 => format!("[{} {} {}]", pick_s(r, &NUMS), pick_s(r, &NUMS), pick_s(r, &NUMS)),
        11 => pick_s(
            r,
            &[
                "[]", "[[1 2][3 4]]", "↯2_0_3 0", "↯0_2 @a", "{}", "□[]", "↯0 i", "°△2_3_4", "↯1_1_1_1_1 5", "↯2_2 i", "[ℂ1 2 ℂ3 ∞]", "↯0_0 □1", "↯3_0 \"\"", "□□5", "⇡5", "↯2_2_2 \"abcdefgh\"", "[0 1 1 0]",
                "=1[1 2 1]", "⇡0", "↯0_3 i", "[256 0]", "[1 NaN ∞ ¯∞ W]", "[@N @a @N]", "\"NaN\"", "[\"NaN\" \"tomb\"]", "{\"∞\" \"W\"}", "□\"empty\"", "↯1_3\"NaN\"",
            ],
        )
        .to_string(),
        12 => format!("{{{} {} {}}}", gen_atom0(r), gen_atom0(r), gen_atom0(r)),
        13 => format!("${} {}", pick_s(r, &IDENTS), gen_atom0(r)),
        14 => pick_s(
            r,
            &[
                "map [1 2] [3 4]", "map \"ab\" {1 2}", "map {} {}", "insert 1 2 map [] []", "$Lbl map [1 2] [3 4]", "□map [1 2] \"ab\"", "map [NaN ∞] [1 2]", "remove 1 map [1 2 3] [4 5 6]",
                "map {\"FUNCTIONS\" \"NaN\"} [1 2]", "map [1 2] {\"W\" \"tomb\"}", "map [i ℂ1 1] [1 2]", "insert @a 1 insert @b 2 map \"\" []", "map ↯0_2 0 ↯0_3 0", "$NaN map \"NaN\" [1 2 3]",
            ],
        )
        .to_string(),
        _ => format!("[{} {}]", gen_string_lit(r), gen_string_lit(r)),
    }
}

fn gen_atom0(r: &mut Rng) -> String {
    match r.below(6) {
        0 | 1 => pick_s(r, &NUMS).to_string(),
        2 => format!("({})", pick_s(r, &CPLX)),
        3 => pick_s(r, &CHARS).to_string(),
        _ => gen_string_lit(r),
    }
}

/// programs with holes: A = atom, S = string literal, I = identifier, N = small number
const TEMPLATES: [&str; 78] = [
    "A",
    "A A",
    "I ← A\nI",
    "I ← A\n⊂I I",
    "F ← +N\nF A",
    "F ← ⊂A\nF A",
    "F ← |1 ⊂⊙A\nF N",
    "I ← +N # S\nI 1",
    "# S\nI ← A\nI",
    "# S\n# S\nF ← ×N\nF 2",
    "$I A",
    "°(+N) 5",
    "⍜(×N)(+1) 5",
    "⍜⊢(+N) [1 2 3]",
    "°⊟ [N N]",
    "F ← ⌅(+N|-N)\nF 1 °F 1",
    "F ← ⌅(×2|÷2|⊙.|+1)\nF 3 °F 3 ⍜F(+1) 3",
    "⍜(⊏1)(×N) [1 2 3]",
    "⍜°□(⊂N) □[1 2]",
    "⌝+ N 5",
    "°⊂ [N 2 3]",
    "°[⊙⊙∘] [1 N 3]",
    "°{⊙∘} {A A}",
    "M! ← ^0 ^0\nM!(+N) 2",
    "M‼ ← ^1 ^0\nM‼(+N|×2) 2",
    "C! ←^ ⇌\nC!(1 N)",
    "C! ←^ $\"_ S\"⊢\nC!(+1) 2",
    "┌─╴Mod\n  I ← A\n  F ← ⊂I\n└─╴\nMod~F N Mod~I",
    "┌─╴Mod\n  I ← A\n└─╴\nMod!(I I)",
    "┌─╴Mod\n  Call ← +N\n  New ← ⊟\n└─╴\nMod 1 Mod!New 2 3",
    "~Foo {A B}\nFoo N 2\nFoo~A Foo N 2",
    "~I {A ← N|B}\nI 7",
    "⨬(+N|-N|A) 1 5",
    "⍣(+1 S|N)",
    "⍣(⍤S 0|$\"caught _\")",
    "⍤S 0",
    "⍤A =1 2",
    "$\"_ and S _\" N A",
    "$\"S\"",
    "°$\"_-_\" \"ab-cd\"",
    "°$\"_S_\" S",
    "&p S",
    "&p $\"_ S\" A",
    "&pf S &p A",
    "∧+ [1 2 N] 0",
    "/+ ⇡N",
    "≡(⊂N) [[1 2][3 4]]",
    "⍥(×2)N 1",
    "⊕□ [0 1 0] [1 N 3]",
    "⬚N↙5 [1 2]",
    "⬚A⊟ [1 2] [3]",
    "⊃(+N|×N) 3",
    "⊓(+N|⊂S) 1 \"x\"",
    "∩(⊂A) [1] [2]",
    "⊸+ N",
    "˜⊂ A N",
    "F ← |1 ⨬(1|×F-1.)>1.\nF N",
    "⍢(×2|<N) 1",
    "⊜□ ≠@ . S",
    "get N A",
    "has A A",
    "type A",
    "△ A",
    "⧻ A",
    "□ A",
    "⊂ A A",
    "⊟ A A",
    "≍ A A",
    "∊ A A",
    "⍆ A",
    "⊛ A",
    "◴ A",
    "repr A",
    "⌕ S S",
    "°□ ⊢ {A A}",
    "⋕ S",
    "+ A",
    "⊂",
];

fn fill(r: &mut Rng, t: &str) -> String {
    let mut out = String::new();
    let cs: Vec<char> = t.chars().collect();
    let mut ident: Option<String> = None;
    let mut in_str = false;
    let mut i = 0;
    while i < cs.len() {
        let c = cs[i];
        let prev_alnum = i > 0 && (cs[i - 1].is_alphanumeric() || cs[i - 1] == '~');
        let next_alnum = i + 1 < cs.len() && (cs[i + 1].is_alphanumeric());
        let alone = !prev_alnum && !next_alnum;
        if c == '"' {
            in_str = !in_str;
        }
        match c {
            'A' if alone && !in_str => out.push_str(&gen_atom(r)),
            'S' if alone => {
                let s = gen_string_lit(r);
                // inside a comment, a format string or a string: bare text
                let before: String = out.chars().rev().take_while(|c| *c != '\n').collect();
                let in_comment = before.contains('#');
                if in_comment || in_str {
                    out.push_str(s.trim_matches('"'))
                } else {
                    out.push_str(&s)
                }
            }
            'I' if alone && !in_str => {
                let id = ident.get_or_insert_with(|| pick_s(r, &IDENTS).to_string()).clone();
                out.push_str(&id);
            }
            'N' if alone && !in_str => out.push_str(pick_s(r, &["0", "1", "2", "3", "5", "0.5", "¯1", "∞", "NaN"])),
            _ => out.push(c),
        }
        i += 1;
    }
    out
}

fn gen_program(r: &mut Rng) -> String {
    let n = 1 + r.below(3);
    let mut parts = Vec::new();
    for _ in 0..n {
        let t = TEMPLATES[r.below(TEMPLATES.len())];
        parts.push(fill(r, t));
    }
    // several definitions of the same name are fine in uiua (shadowing)
    parts.join("\n")
}

/// fixed programs: the known counterexamples and one program per feature
fn fixed_programs() -> Vec<String> {
    let mut v: Vec<String> = vec![
        "\"DEPENDENCIES\"",
        "BINDINGS ← 5",
        "F ← +1 # FUNCTIONS\nF 2",
        "X ← \"FUNCTIONS\"",
        "\"EXPORTS\"",
        "# SPANS\nX ← 5\nX",
        "X ← \"INDEX MACROS\"\nX",
        "X ← \"CODE MACROS\"\nX",
        "X ← \"FILES\"\nX",
        "X ← \"MACRO EXPANSIONS\"\nX",
        "\"STRING INPUTS\"",
        "X ← \"SPANS\"\nX",
        "M! ← ^0 \"STRING INPUTS\"\nM!(⊂)\"a\"",
        "\"NaN\"",
        "\"∞\"",
        "\"-∞\"",
        "\"W\"",
        "\"empty\"",
        "\"tomb\"",
        "X ← \"NaN\"\n⧻X",
        "{\"NaN\" 1}",
        "ℂ NaN 1",
        "X ← ℂ∞ 1\nX",
        "[ℂ1 2 ℂ0 ¯∞]",
        "$DEPENDENCIES 5",
        "NaN ∞ ¯∞ W",
        "[NaN ∞ ¯∞ W 1]",
        "↯2_0_3 0",
        "°△2_3_4",
        "+",
        "⊂ 1",
        "246.94165062806206",
        "⍤\"boom\" 0",
        "Scores ← [70 95 80 60 85]\nBonus ← +5⌊⚂\nRanked ← ⇌⍆+\nRanked Bonus Scores\n/↥+Bonus Scores\n⊢⍏+Bonus Scores",
        "⍤\"fine\" 1",
        "Foo ← map [1 2] [3 4]\n⊂Foo Foo",
        "÷∞ ∞",
        "¯NaN",
        "map [5] ≡□[1]",
        "map [5] ¤□1",
        "X ← map[5]⍚∘[1]\nX",
        "map \"a\" ≡□[1]",
        "map [5 6] ≡□[1 2]",
        "⍜(×∞)(+1) 5",
    ]
    .into_iter()
    .map(String::from)
    .collect();
    for t in TEMPLATES {
        // deterministic filling
        let mut r = Rng::new(7);
        v.push(fill(&mut r, t));
    }
    v
}

/// directed family: labelled map constants whose hash table (written in full because of the
/// label) holds tombstone cells left by a compile-time `remove`, looked up at run time
/// (`+⌊⚂` keeps the lookups from being folded at compile time) for every key
fn directed_programs() -> Vec<(String, String)> {
    let mut v = Vec::new();
    for n in [4usize, 6, 8, 11, 16] {
        for (kn, keys) in [("range", format!("⇡{n}")), ("offset", format!("+100⇡{n}")), ("times7", format!("×7⇡{n}"))] {
            let mut ks: Vec<usize> = vec![0, 1, 2, n / 2, n - 1];
            ks.dedup();
            for k in ks {
                let removes = match kn {
                    "range" => format!("remove {k}"),
                    "offset" => format!("remove {} remove {}", 100 + k, 100 + (k + 1) % n),
                    _ => format!("remove {}", 7 * k),
                };
                let src = format!(
                    "K ← {keys}\nM ← $Tbl {removes} map K ×10⇡{n}\n≡(has ⊙M +⌊⚂) K\n≡(⍣(get ⊙M|¯1◌) +⌊⚂) K\n⧻M\nM"
                );
                v.push((format!("directed-tomb#{n}-{kn}-{k}"), src));
            }
        }
    }
    v
}

/// directed family: array constants (unsorted, sorted up, sorted down, with ties; numbers, bytes,
/// characters, boxes, complex; rank 1-2) that survive into the assembly because the line that uses
/// them also pops an impure value, consumed by the primitives that trust the sortedness marks
fn directed_marks_programs() -> Vec<(String, String)> {
    let arrays = [
        "[70 95 80 60 85]", "[1 2 3 4 5]", "[9 7 5 3 1]", "[3 3 1 3 3]", "[2 2 2 2]", "[1 2 3 2 1]", "[3 2 1 2 3]", "[1 1 2 1]", "[2 2 1 2]", "[0.5 ¯1 300 2.5]", "[1 NaN 0 2]", "[NaN 1 2 0]",
        "[1 0 1 1 0]", "[0 0 1 0]", "\"hello\"", "\"abcde\"", "\"edcba\"", "\"aabaa\"", "{\"b\" \"a\" \"c\"}", "{1 \"a\" [2 3]}", "{3 2 1 2}", "[[3 1][2 2][1 3]]", "[[1 1][1 2][2 0]]",
        "[[1 2][1 2][0 5]]", "[[1 2][3 4][5 0][1 1]]", "[\"ab\" \"ba\" \"aa\"]", "[ℂ1 2 ℂ3 0 ℂ0 5]", "[ℂ0 1 ℂ0 2 ℂ0 0]",
    ];
    let consumers = [
        "⍆", "⍏", "⍖", "/↥", "/↧", "⊢⍏", "⊣⍖", "⊢⍖", "⊣⍏", "◴", "⊛", "⊢", "⊣", "⇌⍆", "/↥⇌", "⍆⊂⊸⊢", "⍆⊂⟜⊣", "▽⊸≥0", "⍆↙3", "⍆↘1", "⊏⊸⍏", "/↥+1", "⍆×¯1", "⍆¯",
    ];
    let mut v = Vec::new();
    for (i, a) in arrays.iter().enumerate() {
        for (j, c) in consumers.iter().enumerate() {
            v.push((format!("directed-marks#{i}-{j}"), format!("X ← {a}\n{c} ◌⌊⚂ X")));
        }
        v.push((format!("directed-marks#{i}-member"), format!("X ← {a}\n∊ X ⇌ ◌⌊⚂ X\n⊗ X ⇌ ◌⌊⚂ X")));
        v.push((format!("directed-marks#{i}-fn"), format!("X ← {a}\nB ← +⌊⚂\nF ← ⇌⍆B\nF X\n/↥B X\n⊢⍏B X\n⊢⍖B X")));
        v.push((format!("directed-marks#{i}-inline"), format!("⍆ ◌⌊⚂ {a}\n⍏ ◌⌊⚂ {a}\n□{a}\n⍆°□ ◌⌊⚂ □{a}")));
    }
    v
}

fn corpus_programs() -> Vec<(String, String)> {
    let mut res = Vec::new();
    for dir in ["/repo/tests", "/repo/examples"] {
        let mut files: Vec<PathBuf> = std::fs::read_dir(dir).map(|d| d.filter_map(|e| e.ok()).map(|e| e.path()).collect()).unwrap_or_default();
        files.sort();
        for f in files {
            if f.extension().map(|e| e != "ua").unwrap_or(true) {
                continue;
            }
            let Ok(text) = std::fs::read_to_string(&f) else { continue };
            let name = f.file_name().unwrap().to_string_lossy().to_string();
            res.push((format!("{name}#all"), text.clone()));
            // top-level chunks: blank-line separated, not inside a module/test scope
            let mut chunk = String::new();
            let mut depth = 0i32;
            let mut k = 0;
            for line in text.lines() {
                let t = line.trim_start();
                if t.starts_with("┌─╴") {
                    depth += 1;
                }
                if t.starts_with("└─╴") {
                    depth -= 1;
                }
                if line.trim().is_empty() && depth <= 0 {
                    if !chunk.trim().is_empty() {
                        res.push((format!("{name}#{k}"), std::mem::take(&mut chunk)));
                        k += 1;
                    }
                    chunk.clear();
                } else {
                    chunk.push_str(line);
                    chunk.push('\n');
                }
            }
            if !chunk.trim().is_empty() {
                res.push((format!("{name}#{k}"), chunk));
            }
        }
    }
    res
}

fn gen_args(r: &mut Rng) -> Vec<Value> {
    let cfg = GenCfg { max_rank: 2, max_dim: 3, box_depth: 1, ..Default::default() };
    let n = r.below(3);
    (0..n).map(|_| gen_value(r, &cfg, 0)).collect()
}

// ---------------------------------------------------------------- search

struct Stats {
    programs: usize,
    compiled: usize,
    reread_ok: usize,
    runs: usize,
    run_errors: usize,
    with_output: usize,
    node_differs_benign: usize,
    constants: usize,
    orig_malformed: usize,
    nondeterministic: usize,
    text_fixpoint_differs: usize,
    violations: usize,
}

fn check_program(name: &str, src: &str, argsets: &[Vec<Value>], st: &mut Stats) {
    st.programs += 1;
    let Some(asm) = compile(src) else { return };
    st.compiled += 1;
    let text = match catch(|| asm.to_uasm()) {
        Ok(t) => t,
        Err(p) => {
            report(st, &format!("uasm-write-panics:{}", norm_msg(&p)), name, src, "to_uasm panics", &p);
            return;
        }
    };
    let back = catch(|| Assembly::from_uasm(&text));
    let asm2 = match back {
        Ok(Ok(a)) => a,
        other => {
            let (how, msg) = match other {
                Ok(Err(e)) => ("error", e),
                Err(p) => ("panic", p),
                _ => unreachable!(),
            };
            let key = if text.contains("[null,") || text.contains(",null]") {
                "uasm-complex-nonfinite".to_string()
            } else if let Some(m) = marker_in_text(&text) {
                format!("uasm-marker-in-text:{m}")
            } else {
                format!("uasm-read-fails:{}", norm_msg(&msg))
            };
            report(st, &key, name, src, &format!("from_uasm(to_uasm(asm)) fails ({how})"), &msg);
            return;
        }
    };
    st.reread_ok += 1;
    // the constants of the re-read assembly: well formed, and marked exactly as their rows are
    let orig_consts = constants(&asm);
    let new_consts = constants(&asm2);
    if orig_consts.len() != new_consts.len() {
        report(st, "uasm-reread-constant-count", name, src, "the re-read assembly has another number of constants", &format!("{} vs {}", orig_consts.len(), new_consts.len()));
    }
    for (i, c) in new_consts.iter().enumerate() {
        st.constants += 1;
        // a constant that is already malformed in the original assembly is not the reader's doing (C05/C16)
        let orig_ok = orig_consts.get(i).map(|o| catch(|| uiua::verif::check_value(o)).map(|r| r.is_ok()).unwrap_or(false)).unwrap_or(true);
        if !orig_ok {
            st.orig_malformed += 1;
            continue;
        }
        if let Err(e) = catch(|| uiua::verif::check_value(c)).unwrap_or_else(|p| Err(format!("check_value panics: {p}"))) {
            report(st, "uasm-reread-constant-malformed", name, src, "a constant of the re-read assembly is not a well-formed value", &format!("constant #{i}: {e}"));
            break;
        }
        if let Err(e) = marks_truthful(c, &format!("constant #{i}")) {
            report(st, "uasm-reread-marks-wrong", name, src, "a constant of the re-read assembly carries sortedness marks that are not the truthful ones", &e);
            break;
        }
    }
    let mut differs = false;
    for args in argsets {
        let a = run_asm_with(&asm, args);
        // programs that are not deterministic (random numbers, clocks) are outside the comparison
        let a_again = run_asm_with(&asm, args);
        if compare_runs(&a, &a_again).is_err() {
            st.nondeterministic += 1;
            break;
        }
        let b = run_asm_with(&asm2, args);
        st.runs += 1;
        if a.res.is_err() {
            st.run_errors += 1;
        }
        if !a.out.is_empty() {
            st.with_output += 1;
        }
        if let Err((kind, detail)) = compare_runs(&a, &b) {
            differs = true;
            let spelled = has_scalar_spelling(&text);
            let one_row_box_map = a.stack.iter().zip(&b.stack).any(|(x, y)| x.is_map() && !y.is_map() && matches!(x, Value::Box(_)) && x.shape.iter().copied().collect::<Vec<_>>() == vec![1]);
            let key = if one_row_box_map {
                // [[1], keys, [{"b":..}]] is also a list of three boxes, which the reader tries first
                "uasm-one-row-box-map-reads-as-list".to_string()
            } else if kind == "value" && detail.starts_with("show") && detail.contains("¯NaN") {
                // the sign of a NaN constant is not kept ("NaN" spelling): visible when printed
                "uasm-nan-sign-lost".to_string()
            } else if let Some(s) = spelled {
                format!("uasm-string-reads-as-number:{s}")
            } else if kind == "error" && a.res.is_err() && b.res.is_ok() && text.contains("[\"TEST_ASSERT\",") {
                "uasm-test-assert-count-lost".to_string()
            } else if kind == "value" && float_not_roundtrip(&text).is_some() {
                "uasm-float-not-roundtrip".to_string()
            } else if kind == "value" && a.stack.iter().any(|v| v.is_map()) {
                // a map constant is written with normalised keys: the re-read map has another
                // internal layout, and joining maps with equal keys depends on the layout
                "uasm-map-layout-differs".to_string()
            } else {
                format!("uasm-run-differs:{kind}:{name}")
            };
            let argd: Vec<String> = args.iter().map(describe).collect();
            report(st, &key, name, src, &format!("original and re-read assembly behave differently ({kind}) on arguments {argd:?}"), &detail);
            break;
        }
    }
    if !differs {
        let same_nodes = asm.root == asm2.root && asm.functions.len() == asm2.functions.len() && asm.functions.iter().zip(asm2.functions.iter()).all(|(x, y)| x == y);
        if !same_nodes {
            st.node_differs_benign += 1;
            if st.node_differs_benign <= 3 {
                println!("{{\"note\":\"node-differs-benign\",\"name\":{},\"src\":{}}}", jstr(name), jstr(src));
            }
        }
        if let Ok(t2) = catch(|| asm2.to_uasm()) {
            if t2.trim_end() != text.trim_end() {
                st.text_fixpoint_differs += 1;
            }
        }
    }
}

fn report(st: &mut Stats, key: &str, name: &str, src: &str, what: &str, detail: &str) {
    st.violations += 1;
    let short: String = src.chars().take(400).collect();
    println!(
        "{{\"violation\":{},\"name\":{},\"src\":{},\"what\":{},\"detail\":{}}}",
        jstr(key),
        jstr(name),
        jstr(&short),
        jstr(what),
        jstr(&detail.chars().take(600).collect::<String>())
    );
}

// ---------------------------------------------------------------- tie: values

fn labelled(mut v: Value, l: &str) -> Value {
    v.meta.label = Some(l.into());
    v
}

fn mapped(r: &mut Rng, cfg: &GenCfg, v: &Value) -> Option<Value> {
    if v.rank() == 0 {
        return None;
    }
    let n = v.row_count();
    // distinct keys: numbers, characters or boxed strings
    let keys = match r.below(3) {
        0 => num(&[n], &(0..n).map(|i| (i * 2) as f64 + 0.5).collect::<Vec<_>>()),
        1 => chars(&[n], &(0..n).map(|i| (b'a' + i as u8) as char).collect::<Vec<_>>()),
        _ => boxes(&[n], (0..n).map(|i| chars(&[2], &['k', (b'a' + i as u8) as char])).collect()),
    };
    let _ = cfg;
    run_uiua_with("map", &[v.clone(), keys]).ok().and_then(|mut s| s.pop())
}

fn marks_record(v: &Value) -> String {
    let (_, up, down) = uiua::verif::flags(v);
    let check = match catch(|| uiua::verif::check_value(v)) {
        Ok(Ok(())) => "ok".to_string(),
        Ok(Err(e)) => e,
        Err(p) => format!("check_value panics: {p}"),
    };
    format!(
        "{{\"cs\":{:?},\"up\":{up},\"down\":{down},\"rank\":{},\"check\":{},\"deep\":{}}}",
        adjacent_cmps(v),
        v.rank(),
        jstr(&check),
        jstr(&marks_truthful(v, "v").err().unwrap_or_default())
    )
}

fn val_record(v: &Value) -> String {
    let mut plain = v.clone();
    let label = v.meta.label.clone();
    let keys = v.meta.map_keys.clone().map(|k| k.normalized());
    plain.meta = Default::default();
    format!(
        "{{\"v\":{},\"label\":{},\"keys\":{},\"show\":{}}}",
        jstr(&coq_value(&plain)),
        label.map(|l| jstr(&l)).unwrap_or("null".into()),
        keys.map(|k| jstr(&coq_value(&k))).unwrap_or("null".into()),
        jstr(&catch(|| format!("{v:?}")).unwrap_or_else(|_| "<formatting panics>".into()))
    )
}

fn nested_meta(v: &Value) -> bool {
    match v {
        Value::Box(a) => a.elements().any(|b| b.0.meta.label.is_some() || b.0.is_map() || nested_meta(&b.0)),
        _ => false,
    }
}

fn tie_values(r: &mut Rng, n: usize) {
    let cfg = GenCfg { max_rank: 3, max_dim: 3, box_depth: 2, ..Default::default() };
    let mut vals: Vec<Value> = vec![
        chars(&[3], &['N', 'a', 'N']),
        chars(&[1], &['W']),
        chars(&[5], &['e', 'm', 'p', 't', 'y']),
        chars(&[4], &['t', 'o', 'm', 'b']),
        chars(&[1], &['∞']),
        chars(&[2], &['-', '∞']),
        chars(&[0], &[]),
        chars(&[], &['a']),
        num(&[], &[f64::NAN]),
        num(&[], &[f64::INFINITY]),
        num(&[], &[f64::NEG_INFINITY]),
        num(&[], &[f64::from_bits(0x7ff8000000000001)]),
        num(&[], &[f64::from_bits(0x7ff8000000000002)]),
        num(&[], &[f64::from_bits(0x7ff8000000000003)]),
        num(&[], &[f64::from_bits(0xfff8000000000000)]),
        num(&[3], &[1.0, 2.0, 3.0]),
        byte(&[3], &[1, 2, 3]),
        num(&[0], &[]),
        byte(&[0], &[]),
        boxes(&[0], vec![]),
        cplx(&[0], &[]),
        cplx(&[], &[uiua::Complex::new(1.0, 2.0)]),
        cplx(&[2], &[uiua::Complex::new(1.0, 2.0), uiua::Complex::new(3.0, 4.0)]),
        cplx(&[3], &[uiua::Complex::new(1.0, 2.0), uiua::Complex::new(3.0, 4.0), uiua::Complex::new(0.0, 0.0)]),
        cplx(&[], &[uiua::Complex::new(f64::NAN, 2.0)]),
        cplx(&[1], &[uiua::Complex::new(1.0, f64::INFINITY)]),
        byte(&[2, 2], &[1, 2, 3, 4]),
        byte(&[2], &[2, 2]),
        num(&[2, 0], &[]),
        boxes(&[0, 3], vec![]),
        cplx(&[0, 2], &[]),
        chars(&[2, 2], &['a', 'b', 'c', 'd']),
        boxes(&[], vec![num(&[], &[1.0])]),
        boxes(&[2], vec![byte(&[1], &[2]), byte(&[2], &[3, 4])]),
        boxes(&[3], vec![byte(&[1], &[2]), byte(&[2], &[3, 4]), byte(&[0], &[])]),
        num(&[], &[0.1]),
        num(&[], &[-0.0]),
        num(&[], &[1e300]),
        num(&[], &[5e-324]),
        num(&[], &[1e16]),
        num(&[], &[255.0]),
        byte(&[], &[255]),
    ];
    // one-row maps: a box array of shape [1] with keys is the open defect (reads back as a list of three boxes)
    for (vals1, keys1) in [
        (boxes(&[1], vec![byte(&[], &[1])]), num(&[1], &[5.0])),
        (boxes(&[1], vec![chars(&[2], &['h', 'i'])]), boxes(&[1], vec![chars(&[1], &['k'])])),
        (boxes(&[1], vec![num(&[], &[2.5])]), chars(&[1], &['a'])),
        (num(&[1], &[2.5]), num(&[1], &[5.0])),
        (boxes(&[1, 1], vec![byte(&[], &[1])]), num(&[1], &[5.0])),
        (boxes(&[2], vec![byte(&[], &[1]), byte(&[], &[2])]), num(&[2], &[5.0, 6.0])),
    ] {
        if let Some(m) = run_uiua_with("map", &[vals1, keys1]).ok().and_then(|mut s| s.pop()) {
            let mut m = m;
            uiua::verif::clear_flags(&mut m);
            vals.push(m);
        }
    }
    // numbers the old representation lost: NaN signs and payloads, floats that the default parser of
    // serde_json read 1 ulp off, and arbitrary bit patterns
    for bits in [0xfff8000000000000u64, 0x7ff8000000000004, 0x7ff0000000000001, 0xfff0000000000000, 0x8000000000000000, 0x1, 0x7fefffffffffffff] {
        vals.push(num(&[], &[f64::from_bits(bits)]));
        vals.push(num(&[2], &[f64::from_bits(bits), 1.5]));
        vals.push(cplx(&[], &[uiua::Complex::new(f64::from_bits(bits), f64::from_bits(bits ^ 0x8000000000000000))]));
    }
    for x in [246.94165062806206f64, 0.1, 1e23, 5e-324, 2.2250738585072014e-308, 1.7976931348623157e308, 0.30000000000000004] {
        vals.push(num(&[], &[x]));
    }
    for k in 0..(n / 5) {
        let len = 1 + r.below(4);
        if k % 2 == 0 {
            let d: Vec<f64> = (0..len).map(|_| f64::from_bits(r.next())).collect();
            vals.push(num(&[len], &d));
        } else {
            let d: Vec<uiua::Complex> = (0..len).map(|_| uiua::Complex::new(f64::from_bits(r.next()), f64::from_bits(r.next()))).collect();
            vals.push(cplx(&[len], &d));
        }
    }
    while vals.len() < n {
        let mut v = gen_value(r, &cfg, 0);
        match r.below(8) {
            0 => v = labelled(v, pick_s(r, &["x", "NaN", "DEPENDENCIES", "a b", ""])),
            1 => {
                if let Some(m) = mapped(r, &cfg, &v) {
                    v = m
                }
            }
            _ => {}
        }
        vals.push(v);
    }
    for (i, v) in vals.iter().enumerate() {
        if nested_meta(v) {
            continue;
        }
        let text = match catch(|| serde_json::to_string(v)) {
            Ok(Ok(t)) => t,
            other => {
                println!("{{\"i\":{i},\"val\":{},\"ser_error\":{}}}", val_record(v), jstr(&format!("{other:?}")));
                continue;
            }
        };
        let back = catch(|| serde_json::from_str::<Value>(&text));
        let mut marks = "null".to_string();
        let b = match back {
            Ok(Ok(v2)) => {
                marks = marks_record(&v2);
                val_record(&v2)
            }
            Ok(Err(e)) => format!("{{\"err\":{}}}", jstr(&e.to_string())),
            Err(p) => format!("{{\"err\":{}}}", jstr(&format!("PANIC {p}"))),
        };
        println!("{{\"i\":{i},\"val\":{},\"json\":{},\"back\":{},\"marks\":{marks}}}", val_record(v), jstr(&text), b);
    }
    // texts that no serialiser wrote: the reader's variant choice on its own
    let extra = [
        "[1,2]", "[1.0,2]", "1", "1.5", "300", "-1", "\"NaN\"", "\"nan\"", "\"\"", "\"abc\"", "[]", "[[2],[1,2]]", "[[2,1],[1,2]]", "[[],\"a\"]", "[[],[1]]", "[[],[1.5]]", "[[1],\"a\"]", "[1.0,\"∞\"]",
        "[\"NaN\",\"W\"]", "{\"b\":1}", "[{\"b\":1},{\"b\":\"x\"}]", "[[2],[1,2],[3,4]]", "[[2],\"ab\",[3,4]]", "[[2],[3,4],\"ab\"]", "[[2],[1.5,2.5],[3,4]]", "[[2],[3,4],{\"label\":\"x\"}]", "[[2],\"ab\",{\"label\":\"x\"}]",
        "[[1.0,2.0],[3.0,4.0]]", "[[1,2],[3,4]]", "[[1,2],[3.0,4.0]]", "[[2,1],[[1.0,2.0],[3.0,4.0]]]", "{\"empty_boxes\":[]}", "{\"empty_complex\":[]}", "[[0,2],{\"empty_boxes\":[]}]", "[[0],{\"empty_complex\":[]}]",
        "null", "true", "[null,1.0]", "[[1.0,null]]", "[[],[[1.0,2.0]]]", "[[3],[1,2]]", "[[2],[1,2],{}]", "[256]", "[1,256]", "[[2],[1,256]]", "\"a\\u0000b\"", "[[],{\"b\":1}]", "[[],[{\"b\":1}]]", "1e2", "[1e2]", "[[2],[[1],[2]]]",
        "[[1],[[2],[3]]]", "[[1],[[1],[3]]]", "[[2],[\"a\",\"b\"],[1,2]]",
        "{\"nan\":9221120237041090564}", "{\"nan\":0}", "{\"nan\":1.5}", "{\"nan\":-1}", "{\"nan\":18446744073709551616}", "{\"NaN\":null}", "\"nan\"", "[{\"nan\":5},1.0]",
        "[[\"NaN\",1.0]]", "[[\"∞\",\"-∞\"],[{\"nan\":7},\"W\"]]", "[[],[[\"NaN\",1.0]]]", "[[3],\"NaN\"]", "[[1],\"W\"]", "[[2],\"NaN\"]", "[\"NaN\",1.0]", "[[1.0,null]]", "[[null,null]]",
        "[[3],[1,2]]", "[[2,2],[1.5]]", "[[0,5],[1]]", "[[0,5],[]]", "[[2],[1,2],[3]]", "[[2],[7],[3,4]]", "[[2],[3,4],{\"label\":\"x\"}]", "[[3],[3,4],{\"label\":\"x\"}]", "[[1],[5.0],[{\"b\":1}]]",
        "[[1]]", "[[{\"b\":1}]]", "[[1],[5],[1]]", "[[2],\"abc\"]", "[[3],\"abc\"]", "[[],\"ab\"]", "[[1,1],[[1.0,2.0]]]", "[[2],[[1.0,2.0]]]", "[[2],{\"empty_boxes\":[]}]", "[[2,0],{\"empty_boxes\":[]}]",
        "[[1],[{\"b\":[[3],[1,2]]}]]", "{\"b\":[[2],[1]]}", "[[1,2,3],[1,2,3,4,5,6]]", "[[1,2,3],[1,2,3,4,5]]",
        "[[1,2],[[1,2],[3,4]]]", "{\"b\":{\"nan\":3}}", "[{\"b\":\"NaN\"}]", "{\"nan\":3,\"x\":1}", "{\"b\":1,\"nan\":3}",
    ];
    for (k, t) in extra.iter().enumerate() {
        let back = catch(|| serde_json::from_str::<Value>(t));
        let b = match back {
            Ok(Ok(v2)) => {
                if nested_meta(&v2) {
                    continue;
                }
                val_record(&v2)
            }
            Ok(Err(e)) => format!("{{\"err\":{}}}", jstr(&e.to_string())),
            Err(p) => format!("{{\"err\":{}}}", jstr(&format!("PANIC {p}"))),
        };
        println!("{{\"x\":{k},\"json\":{},\"back\":{}}}", jstr(t), b);
    }
}

// ---------------------------------------------------------------- tie: framing

fn outcome(text: &str) -> String {
    match catch(|| Assembly::from_uasm(text)) {
        Ok(Ok(a)) => format!(
            "{{\"ok\":[{},{},{},{},{},{},{},{},{}]}}",
            a.dependencies.len(),
            a.exports.len(),
            a.bindings.len(),
            a.functions.len(),
            a.index_macros.len(),
            a.code_macros.len(),
            a.spans.len(),
            a.inputs.files.len() + a.inputs.macros.len() * 1000,
            a.inputs.strings.len()
        ),
        Ok(Err(e)) => format!("{{\"err\":{}}}", jstr(&e)),
        Err(p) => format!("{{\"panic\":{}}}", jstr(&p)),
    }
}

fn outcome_in_child(text: &str) -> String {
    use std::io::Write;
    use std::process::{Command, Stdio};
    let exe = std::env::current_exe().unwrap();
    let Ok(mut child) = Command::new(exe).arg("outcome").stdin(Stdio::piped()).stdout(Stdio::piped()).stderr(Stdio::null()).spawn() else {
        return outcome(text);
    };
    child.stdin.take().unwrap().write_all(text.as_bytes()).ok();
    match child.wait_with_output() {
        Ok(o) if o.status.success() => String::from_utf8_lossy(&o.stdout).trim().to_string(),
        Ok(o) => format!("{{\"crash\":{}}}", jstr(&format!("{}", o.status))),
        Err(e) => format!("{{\"crash\":{}}}", jstr(&e.to_string())),
    }
}

fn tie_framing(r: &mut Rng, n: usize) {
    let mut k = 0;
    let mut emit = |kind: &str, src: &str, text: &str| {
        // a mutated text is read in a child process: a malformed text can crash the reader (segmentation fault)
        let oc = if kind == "real" { outcome(text) } else { outcome_in_child(text) };
        println!("{{\"f\":{k},\"kind\":{},\"src\":{},\"text\":{},\"outcome\":{}}}", jstr(kind), jstr(src), jstr(text), oc);
        k += 1;
    };
    // fixed malformed texts first: a value whose shape does not fit its data (crashes the reader: known finding)
    if let Some(asm) = compile("\"ab\"") {
        let t = asm.to_uasm();
        for bad in ["{\"push\":[[2,4294967296000],\"\"]}", "{\"push\":[[3],[1,2]]}", "{\"push\":[[2,2],[1.5]]}"] {
            emit("bad-numbers", "\"ab\"", &t.replacen("{\"push\":\"ab\"}", bad, 1));
        }
    }
    let mut progs = fixed_programs();
    while progs.len() < n {
        progs.push(gen_program(r));
    }
    for src in progs {
        let Some(mut asm) = compile(&src) else { continue };
        // adversarial dependency paths and export names (harmless for a correct reader:
        // those sections are cut away before the later markers are searched)
        if r.chance(1, 3) {
            asm.dependencies.push((PathBuf::from(format!("/tmp/{}.ua", pick_s(r, &["FUNCTIONS", "SPANS", "x", "FILES y", "STRING INPUTS"]))), r.next()));
        }
        let Ok(text) = catch(|| asm.to_uasm()) else { continue };
        emit("real", &src, &text);
        // mutated texts: the reader on inputs no writer produced
        match r.below(11) {
            6 => {
                // cut a line short (unterminated JSON)
                let ls: Vec<&str> = text.split('\n').collect();
                let i = r.below(ls.len());
                let cut: String = ls[i].chars().take(r.below(ls[i].chars().count() + 1)).collect();
                let mut out: Vec<String> = ls.iter().map(|x| x.to_string()).collect();
                out[i] = cut;
                emit("cut-line", &src, &out.join("\n"));
            }
            7 => {
                // replace one character of a line
                let cs: Vec<char> = text.chars().collect();
                let i = r.below(cs.len());
                let c = *r.pick(&['x', '9', '"', '[', ']', '{', '}', ' ', ',', ':', '-', 'e', '\\', 'é']);
                let t: String = cs.iter().enumerate().map(|(k, ch)| if k == i { c } else { *ch }).collect();
                emit("garble-char", &src, &t);
            }
            8 => {
                // spans that refer to files / macros that are not there, and no blank line after the spans
                let t = text.replacen("\nSPANS\n", &format!("\nSPANS\nfile{} [1,1,0,0] [1,2,1,1]\nmacro{} [1,1,0,0] [1,2,1,1]\n", r.below(3), r.below(3)), 1);
                let t = if r.chance(1, 2) { t.replacen("\n\nFILES\n", "\nFILES\n", 1) } else { t };
                emit("bad-span-ref", &src, &t);
            }
            9 => {
                // delete one line / duplicate one line
                let mut ls: Vec<&str> = text.split('\n').collect();
                let i = r.below(ls.len());
                if r.chance(1, 2) {
                    ls.remove(i);
                } else {
                    let l = ls[i];
                    ls.insert(i, l);
                }
                emit("line-del-dup", &src, &ls.join("\n"));
            }
            10 => {
                // numbers out of range
                let t = text.replacen(" 1\n", " 99999999999999999999999\n", 1).replacen(",0]", ",4294967296000]", 1);
                let t = if t.contains("\nTEST ASSERTS\n") { t.replacen("\nTEST ASSERTS\n", "\nTEST ASSERTS\n-", 1) } else { format!("{t}\nTEST ASSERTS\nx\n") };
                emit("bad-numbers", &src, &t);
            }
            0 => {
                // drop one marker line
                let m = MUT_MARKERS[r.below(MUT_MARKERS.len())];
                let t = text.replacen(&format!("\n{m}\n"), "\n", 1);
                emit("drop-marker", &src, &t);
            }
            1 => {
                // duplicate one marker line
                let m = MUT_MARKERS[r.below(MUT_MARKERS.len())];
                let t = text.replacen(&format!("\n{m}\n"), &format!("\n{m}\n\n{m}\n"), 1);
                emit("dup-marker", &src, &t);
            }
            2 => {
                // marker glued to other text (not a whole line)
                let m = MUT_MARKERS[r.below(MUT_MARKERS.len())];
                let t = text.replacen(&format!("\n{m}\n"), &format!("\n  {m}  \r\n"), 1);
                emit("padded-marker", &src, &t);
            }
            3 => {
                // leading / trailing whitespace and blank lines
                let t = format!("\n \n{}\n\n  \n", text.replace("\n\n", "\n \t\n\n"));
                emit("blank-lines", &src, &t);
            }
            4 => {
                // a later marker word inside the string inputs (harmless) or appended as an extra string
                let m = MUT_MARKERS[r.below(MUT_MARKERS.len())];
                let t = if text.contains("\nSTRING INPUTS\n") { format!("{text}\"{m}\"\n") } else { format!("{text}\nSTRING INPUTS\n\"{m}\"\n") };
                emit("marker-in-strings", &src, &t);
            }
            _ => {
                // swap two markers
                let i = r.below(MUT_MARKERS.len() - 1);
                let (a, b) = (MUT_MARKERS[i], MUT_MARKERS[i + 1]);
                let t = text.replacen(&format!("\n{a}\n"), "\n@@@\n", 1).replacen(&format!("\n{b}\n"), &format!("\n{a}\n"), 1).replacen("\n@@@\n", &format!("\n{b}\n"), 1);
                emit("swap-markers", &src, &t);
            }
        }
    }
}

// ---------------------------------------------------------------- main

fn main() {
    let mode = std::env::args().nth(1).unwrap_or_default();
    let mut r = Rng::new(seed_from_env());
    match mode.as_str() {
        "rt" => {
            let src = std::env::args().nth(2).unwrap_or("+1 2".into());
            let Some(asm) = compile(&src) else {
                println!("does not compile");
                return;
            };
            let text = asm.to_uasm();
            println!("{text}\n-----");
            for (i, c) in constants(&asm).iter().enumerate() {
                if let Err(e) = uiua::verif::check_value(c) {
                    println!("ORIGINAL constant #{i} malformed: {e}: {}", describe(c));
                }
            }
            if let Ok(Ok(a2)) = catch(|| Assembly::from_uasm(&text)) {
                for (i, c) in constants(&a2).iter().enumerate() {
                    if let Err(e) = uiua::verif::check_value(c) {
                        println!("REREAD constant #{i} malformed: {e}: {} json {}", describe(c), serde_json::to_string(c).unwrap_or_default());
                    }
                    if let Err(e) = marks_truthful(c, "c") {
                        println!("REREAD constant #{i} marks: {e}");
                    }
                }
            }
            match catch(|| Assembly::from_uasm(&text)) {
                Ok(Ok(a2)) => {
                    let a = run_asm_with(&asm, &[]);
                    let b = run_asm_with(&a2, &[]);
                    println!("orig   {:?} {:?} out {:?}", a.res, a.stack, String::from_utf8_lossy(&a.out));
                    println!("reread {:?} {:?} out {:?}", b.res, b.stack, String::from_utf8_lossy(&b.out));
                    println!("compare {:?}", compare_runs(&a, &b));
                }
                Ok(Err(e)) => println!("from_uasm ERR {e}"),
                Err(p) => println!("from_uasm PANIC {p}"),
            }
        }
        "search" => {
            let n: usize = std::env::args().nth(2).and_then(|s| s.parse().ok()).unwrap_or(100);
            let corpus = arg_usize("--corpus", 1) == 1;
            let mut st = Stats { programs: 0, compiled: 0, reread_ok: 0, runs: 0, run_errors: 0, with_output: 0, node_differs_benign: 0, constants: 0, orig_malformed: 0, nondeterministic: 0, text_fixpoint_differs: 0, violations: 0 };
            for (i, p) in fixed_programs().iter().enumerate() {
                let argsets = vec![vec![], gen_args(&mut r), gen_args(&mut r)];
                check_program(&format!("fixed#{i}"), p, &argsets, &mut st);
            }
            for (name, p) in directed_programs().into_iter().chain(directed_marks_programs()) {
                check_program(&name, &p, &[vec![]], &mut st);
            }
            let fixed = st.programs;
            if corpus {
                for (name, p) in corpus_programs() {
                    let argsets = vec![vec![], gen_args(&mut r)];
                    check_program(&name, &p, &argsets, &mut st);
                }
            }
            let corpus_n = st.programs - fixed;
            for i in 0..n {
                let p = gen_program(&mut r);
                let argsets = vec![vec![], gen_args(&mut r), gen_args(&mut r)];
                check_program(&format!("gen#{i}"), &p, &argsets, &mut st);
            }
            println!(
                "{{\"summary\":true,\"programs\":{},\"fixed\":{fixed},\"corpus\":{corpus_n},\"generated\":{n},\"compiled\":{},\"reread_ok\":{},\"runs\":{},\"run_errors\":{},\"with_output\":{},\"node_differs_benign\":{},\"constants_checked\":{},\"constants_malformed_already_in_the_original\":{},\"nondeterministic\":{},\"text_fixpoint_differs\":{},\"violations\":{}}}",
                st.programs, st.compiled, st.reread_ok, st.runs, st.run_errors, st.with_output, st.node_differs_benign, st.constants, st.orig_malformed, st.nondeterministic, st.text_fixpoint_differs, st.violations
            );
        }
        "outcome" => {
            let mut text = String::new();
            std::io::Read::read_to_string(&mut std::io::stdin(), &mut text).ok();
            println!("{}", outcome(&text));
        }
        "tie-values" => {
            let n: usize = std::env::args().nth(2).and_then(|s| s.parse().ok()).unwrap_or(100);
            tie_values(&mut r, n);
        }
        "tie-framing" => {
            let n: usize = std::env::args().nth(2).and_then(|s| s.parse().ok()).unwrap_or(100);
            tie_framing(&mut r, n);
        }
        _ => eprintln!("usage: c17 search|tie-values|tie-framing N | rt PROGRAM"),
    }
}
