//! C07: iterating and argument-routing modifiers equal their definitions.
//!   c07 tie N      -> JSON lines: catalogue operand x nesting x integer array, with the interpreter's result
//!                     (evaluated in Coq against BOTH the transcribed kernels and the definitions)
//!   c07 search N   -> JSON lines: metamorphic disagreements on the implementation
//!                     (direct / named wrapper / noise / assembled by hand)
use std::collections::BTreeMap;

use uiua::Value;
use uvh::*;

// ---------------------------------------------------------------- results

/// outcome of a "by hand" evaluation: a value, only the leading lengths (an empty mapped axis was
/// met: the property compares nothing else there), or an error
#[derive(Clone, Debug)]
enum H {
    V(Value),
    Lead(Vec<usize>),
    E(String),
}

fn same_class(a: &Value, b: &Value) -> bool {
    let c = |v: &Value| match v {
        Value::Num(_) | Value::Byte(_) => 0,
        Value::Complex(_) => 1,
        Value::Char(_) => 2,
        Value::Box(_) => 3,
    };
    c(a) == c(b)
}

fn val_eq(a: &Value, b: &Value) -> bool {
    catch(|| val_eq_(a, b)).unwrap_or(false)
}
fn val_eq_(a: &Value, b: &Value) -> bool {
    if a.shape != b.shape {
        return false;
    }
    if a.shape.elements() == 0 {
        return true; // the element type of an empty array is not observable
    }
    same_class(a, b) && a == b
}

/// does the implementation's outcome agree with the by-hand outcome under the property's relation?
fn agrees(hand: &H, imp: &Result<Value, String>) -> bool {
    match (hand, imp) {
        (H::V(a), Ok(b)) => val_eq(a, b),
        (H::Lead(p), Ok(b)) => b.shape.len() >= p.len() && b.shape[..p.len()] == p[..],
        (H::E(_), Err(_)) => true,
        _ => false,
    }
}

fn show_h(h: &H) -> String {
    match h {
        H::V(v) => format!("{} shape {:?} {}", v.show().replace('\n', " "), &*v.shape, v.type_name()),
        H::Lead(p) => format!("<empty mapped axis: leading lengths {p:?}>"),
        H::E(e) => format!("ERR {}", e.lines().next().unwrap_or("")),
    }
}
fn show_r(r: &Result<Value, String>) -> String {
    match r {
        Ok(v) => format!("{} shape {:?} {}", v.show().replace('\n', " "), &*v.shape, v.type_name()),
        Err(e) => format!("ERR {}", e.lines().next().unwrap_or("")),
    }
}

/// strict assembly of result rows: all shapes must agree (no fill), then from_row_values
fn assemble(rows: Vec<H>, n: usize) -> H {
    if n == 0 {
        return H::Lead(vec![0]);
    }
    let mut vals = Vec::with_capacity(rows.len());
    // a failure of any row is the failure of the whole, also when another row met an empty axis
    if let Some(H::E(e)) = rows.iter().find(|r| matches!(r, H::E(_))) {
        return H::E(e.clone());
    }
    for r in rows {
        match r {
            H::E(e) => return H::E(e),
            H::Lead(mut p) => {
                p.insert(0, n);
                return H::Lead(p);
            }
            H::V(v) => vals.push(v),
        }
    }
    if vals.iter().any(|v| v.shape != vals[0].shape) {
        return H::E("by hand: result rows have different shapes".into());
    }
    match catch(|| Value::from_row_values_infallible(vals)) {
        Ok(v) => H::V(v),
        Err(e) => H::E(format!("by hand: rows cannot be combined: {e}")),
    }
}

/// run a function with arguments (args[0] is the FIRST argument = top of the stack); one output expected
fn call1(prelude: &str, f: &str, args: &[Value], evals: &mut usize) -> H {
    *evals += 1;
    let mut st: Vec<Value> = args.to_vec();
    st.reverse();
    match run_uiua_with(&format!("{prelude}{f}"), &st) {
        Ok(mut out) => {
            if out.len() != 1 {
                return H::E(format!("by hand: {} outputs", out.len()));
            }
            H::V(out.pop().unwrap())
        }
        Err(e) => H::E(e),
    }
}
/// all outputs, top of the stack first
fn calln(prelude: &str, f: &str, args: &[Value], evals: &mut usize) -> Result<Vec<Value>, String> {
    *evals += 1;
    let mut st: Vec<Value> = args.to_vec();
    st.reverse();
    run_uiua_with(&format!("{prelude}{f}"), &st).map(|mut o| {
        o.reverse();
        o
    })
}

fn run1(src: &str, args: &[Value], evals: &mut usize) -> Result<Value, String> {
    *evals += 1;
    let mut st: Vec<Value> = args.to_vec();
    st.reverse();
    match run_uiua_with(src, &st) {
        Ok(mut out) => {
            if out.len() != 1 {
                return Err(format!("{} outputs", out.len()));
            }
            let v = out.pop().unwrap();
            if let Err(e) = uiua::verif::check_value(&v) {
                let kind = if e.contains("marked sorted") { "STALE-MARK" } else { "MALFORMED" };
                return Err(format!("{kind} result: {e} | value {} shape {:?}", catch(|| v.show().replace('\n', " ")).unwrap_or_default(), &*v.shape));
            }
            Ok(v)
        }
        Err(e) => Err(e),
    }
}

fn rows_of(v: &Value) -> Vec<Value> {
    if v.rank() == 0 { vec![v.clone()] } else { v.rows().collect() }
}

// ---------------------------------------------------------------- by-hand definitions

/// ≡^k F x : apply F to each row, k levels deep; a scalar is its own single row and is not wrapped
fn hand_rows(f: &str, x: &Value, k: usize, ev: &mut usize) -> H {
    if k == 0 {
        return call1("", f, &[x.clone()], ev);
    }
    if x.rank() == 0 {
        return hand_rows(f, x, k - 1, ev);
    }
    let n = x.row_count();
    let rs: Vec<H> = x.rows().map(|r| hand_rows(f, &r, k - 1, ev)).collect();
    assemble(rs, n)
}

/// ⍚^k F x : rows, unboxed; each result boxed
fn hand_inventory(f: &str, x: &Value, k: usize, ev: &mut usize) -> H {
    if k == 0 {
        return call1("", f, &[x.clone()], ev);
    }
    let n = if x.rank() == 0 { 1 } else { x.row_count() };
    let rs: Vec<H> = rows_of(x)
        .into_iter()
        .map(|r| {
            let r = r.unboxed();
            match hand_inventory(f, &r, k - 1, ev) {
                H::V(v) => H::V(boxes(&[], vec![v])),
                H::Lead(_) => H::Lead(vec![]), // an empty axis inside: only the outer length is compared
                e => e,
            }
        })
        .collect();
    if x.rank() == 0 {
        return rs.into_iter().next().unwrap();
    }
    if let Some(H::E(e)) = rs.iter().find(|h| matches!(h, H::E(_))) {
        return H::E(e.clone());
    }
    if rs.iter().any(|h| matches!(h, H::Lead(_))) {
        return H::Lead(vec![n]);
    }
    assemble(rs, n)
}

/// ∵F x : each element
fn hand_each(f: &str, x: &Value, ev: &mut usize) -> H {
    let n = x.shape.elements();
    if n == 0 {
        let sh: Vec<usize> = x.shape.iter().copied().collect();
        let z = sh.iter().position(|&d| d == 0).unwrap();
        return H::Lead(sh[..=z].to_vec());
    }
    let mut flat = x.clone();
    flat.shape = [n].as_slice().into();
    let rs: Vec<H> = flat.rows().map(|e| call1("", f, &[e], ev)).collect();
    match assemble(rs, n) {
        H::V(mut v) => {
            let mut sh: Vec<usize> = x.shape.iter().copied().collect();
            sh.extend(v.shape.iter().skip(1).copied());
            v.shape = sh.as_slice().into();
            H::V(v)
        }
        h => h,
    }
}

/// ⊞F x y : every combination of rows
fn hand_table(f: &str, x: &Value, y: &Value, ev: &mut usize) -> H {
    let (nx, ny) = (rows_of(x).len(), rows_of(y).len());
    if x.rank() > 0 && nx == 0 {
        return H::Lead(vec![0]);
    }
    let outer: Vec<H> = rows_of(x)
        .iter()
        .map(|a| {
            let inner: Vec<H> = rows_of(y).iter().map(|b| call1("", f, &[a.clone(), b.clone()], ev)).collect();
            if y.rank() == 0 { inner.into_iter().next().unwrap() } else { assemble(inner, ny) }
        })
        .collect();
    if x.rank() == 0 { outer.into_iter().next().unwrap() } else { assemble(outer, nx) }
}

/// /F x : left fold over the rows; F gets the accumulator as first argument, the next row as second
fn hand_reduce(f: &str, x: &Value, ev: &mut usize) -> H {
    if x.rank() == 0 {
        return H::V(x.clone());
    }
    let mut it = x.rows();
    let Some(mut acc) = it.next() else { return H::E("by hand: empty".into()) };
    for r in it {
        match call1("", f, &[acc, r], ev) {
            H::V(v) => acc = v,
            e => return e,
        }
    }
    H::V(acc)
}

/// \F x : the accumulated prefixes
fn hand_scan(f: &str, x: &Value, ev: &mut usize) -> H {
    if x.rank() == 0 {
        return H::E("by hand: scan of a scalar".into());
    }
    let n = x.row_count();
    let mut it = x.rows();
    let Some(mut acc) = it.next() else { return H::Lead(vec![0]) };
    let mut outs = vec![H::V(acc.clone())];
    for r in it {
        match call1("", f, &[acc, r], ev) {
            H::V(v) => {
                outs.push(H::V(v.clone()));
                acc = v
            }
            e => return e,
        }
    }
    assemble(outs, n)
}

/// ∧F x acc : F gets the row as first argument and the accumulator as second
fn hand_fold(f: &str, x: &Value, acc: &Value, ev: &mut usize) -> H {
    let mut acc = acc.clone();
    for r in rows_of(x) {
        match call1("", f, &[r, acc], ev) {
            H::V(v) => acc = v,
            e => return e,
        }
    }
    H::V(acc)
}

fn hand_repeat(f: &str, n: usize, x: &Value, ev: &mut usize) -> H {
    let mut acc = x.clone();
    for _ in 0..n {
        match call1("", f, &[acc], ev) {
            H::V(v) => acc = v,
            e => return e,
        }
    }
    H::V(acc)
}

/// the rows of x selected by index list, as an array with x's row shape (possibly empty)
fn select_rows(x: &Value, idx: &[usize], ev: &mut usize) -> H {
    let iv = num(&[idx.len()], &idx.iter().map(|&i| i as f64).collect::<Vec<_>>());
    call1("", "⊏", &[iv, x.clone()], ev)
}

/// ⊕□ idx x : group i = rows whose index is i, boxed
fn hand_group_box(idx: &[i64], x: &Value, ev: &mut usize) -> H {
    let ngroups = idx.iter().copied().max().map(|m| (m + 1).max(0) as usize).unwrap_or(0);
    if ngroups == 0 {
        return H::Lead(vec![0]);
    }
    let mut out = Vec::new();
    for g in 0..ngroups {
        let sel: Vec<usize> = idx.iter().enumerate().filter(|(_, i)| **i == g as i64).map(|(p, _)| p).collect();
        match select_rows(x, &sel, ev) {
            H::V(v) => out.push(H::V(boxes(&[], vec![v]))),
            e => return e,
        }
    }
    assemble(out, ngroups)
}

/// ⊜□ marks x : runs of equal positive markers
fn hand_partition_box(marks: &[i64], x: &Value, ev: &mut usize) -> H {
    let mut runs: Vec<Vec<usize>> = Vec::new();
    let mut prev: i64 = 0;
    for (p, &m) in marks.iter().enumerate() {
        if m > 0 {
            if m == prev && !runs.is_empty() {
                runs.last_mut().unwrap().push(p);
            } else {
                runs.push(vec![p]);
            }
        }
        prev = m;
    }
    if runs.is_empty() {
        return H::Lead(vec![0]);
    }
    let n = runs.len();
    let mut out = Vec::new();
    for r in runs {
        match select_rows(x, &r, ev) {
            H::V(v) => out.push(H::V(boxes(&[], vec![v]))),
            e => return e,
        }
    }
    assemble(out, n)
}

// ---------------------------------------------------------------- operands

/// monadic 1->1 operands: (source, has a specialised path)
const MON: &[&str] = &[
    "⇌", "⍉", "⊢", "⊣", "⍆", "♭", "¤", "□", "⊛", "¬", "±", "¯", "⌵", "∘", "/+", "/×", "/↧", "/↥", "/⊂", "⧻", "△", "◴", "⍏", "°□", "(⇌⍉)", "(⊢⇌)", "(⍉⊢)",
    "(¤⇌)", "(⊢¤)", "(♭¤)", "(□⇌)", "(⇌≡⇌)", "(≡⇌≡⍉)", "(5◌)", "(⊂⊸⇌)", "(⊟⟜⇌)", "(+1)", "(⌵⇌)", "(⇌¯)", "(↙1)", "(⊂0)", "(\\+)", "(/↥♭)", "(⊢⍆)",
];
/// dyadic 2->1 operands
const DY: &[&str] = &["+", "-", "×", "↥", "↧", "=", "<", "⊂", "⊟", "≍", "(⊂⇌)", "(+⊢)", "(⊟⊙⇌)", "˜-", "˜⊂", "(↥⊙¯)", "⊡", "↻", "(+1+)", "(×2↥)", "(-⊙(+1))"];

/// the operand without ONE pair of enclosing parentheses (if the first `(` closes at the very end)
fn bare_of(f: &str) -> &str {
    let cs: Vec<(usize, char)> = f.char_indices().collect();
    if cs.len() < 2 || cs[0].1 != '(' || cs[cs.len() - 1].1 != ')' {
        return f;
    }
    let mut depth = 0i32;
    for (k, (_, c)) in cs.iter().enumerate() {
        match c {
            '(' => depth += 1,
            ')' => {
                depth -= 1;
                if depth == 0 && k != cs.len() - 1 {
                    return f;
                }
            }
            _ => {}
        }
    }
    &f[cs[1].0..cs[cs.len() - 1].0]
}

fn wrap_variants(f: &str) -> Vec<(String, String, &'static str)> {
    // (prelude, operand text, variant name)
    let bare = bare_of(f);
    vec![
        (String::new(), f.to_string(), "direct"),
        (format!("G ← {bare}\n"), "G".to_string(), "wrapper"),
        (String::new(), format!("({bare}∘)"), "noise"),
    ]
}

// ---------------------------------------------------------------- generators

fn gcfg(max_rank: usize) -> GenCfg {
    GenCfg { max_rank, max_dim: 3, box_depth: 1, nan: false, ..Default::default() }
}

/// an array of rank >= 1; `force`: 0 = free, 1 = leading axis of length 1, 2 = empty leading axis, 3 = an inner empty axis
fn gen_arr(r: &mut Rng, max_rank: usize, force: usize, ints: bool) -> Value {
    let rank = 1 + r.below(max_rank);
    let mut sh: Vec<usize> = (0..rank).map(|_| 1 + r.below(3)).collect();
    match force {
        1 => sh[0] = 1,
        2 => sh[0] = 0,
        3 => {
            let i = r.below(rank);
            sh[i] = 0
        }
        _ => {}
    }
    if ints {
        let n = shape_len(&sh);
        let d: Vec<f64> = (0..n).map(|_| r.range(-3, 6) as f64).collect();
        return num(&sh, &d);
    }
    gen_value_shaped(r, &gcfg(max_rank), &sh, 0)
}

fn garr(r: &mut Rng, max_rank: usize, forced: i32, pn: usize, pd: usize) -> Value {
    let force = if forced < 0 { pick_force(r) } else { forced as usize };
    let ints = if pn >= pd { true } else { r.chance(pn, pd) };
    gen_arr(r, max_rank, force, ints)
}

fn pick_force(r: &mut Rng) -> usize {
    match r.below(10) {
        0 | 1 => 1,
        2 => 2,
        3 => 3,
        _ => 0,
    }
}

// ---------------------------------------------------------------- reporting

struct Rep {
    evals: usize,
    compared: usize,
    viol: usize,
    fam: BTreeMap<String, usize>,
    seen: std::collections::BTreeSet<String>,
}

impl Rep {
    fn count(&mut self, fam: &str) {
        *self.fam.entry(fam.to_string()).or_default() += 1;
        self.compared += 1;
    }
    #[allow(clippy::too_many_arguments)]
    fn report(&mut self, fam: &str, class: &str, operand: &str, variant: &str, program: &str, args: &[&Value], hand: &str, got: &str) {
        self.viol += 1;
        let key = format!("{fam}|{class}|{operand}|{variant}");
        if !self.seen.insert(key) {
            return;
        }
        println!(
            "{{\"violation\":{},\"class\":{},\"operand\":{},\"variant\":{},\"program\":{},\"args\":[{}],\"by_hand\":{},\"got\":{}}}",
            jstr(fam),
            jstr(class),
            jstr(operand),
            jstr(variant),
            jstr(program),
            args.iter().map(|v| jstr(&format!("{} shape {:?} {}", v.show().replace('\n', " "), &*v.shape, v.type_name()))).collect::<Vec<_>>().join(","),
            jstr(hand),
            jstr(got)
        );
    }
}

/// classify a disagreement of a mapping modifier into a stable class
fn classify(hand: &H, imp: &Result<Value, String>, x: &Value, k: usize, operand: &str, modg: &str) -> String {
    let bare = bare_of(operand);
    let pervasive_only = !bare.is_empty() && bare.chars().all(|c| "¬±¯⌵√⌊⌈⁅+-×÷=≠<>≤≥↥↧0123456789".contains(c));
    if modg == "⍚" && pervasive_only {
        return "inventory-pervasive-unboxed".into();
    }
    if modg == "≡2" && bare.contains('↻') {
        return "rows-rotate-depth".into();
    }
    if modg == "/" && bare.contains('⊂') && x.rank() >= 1 && x.rank() > k && x.shape[k] == 1 {
        return "reduce-join-singleton".into();
    }
    match (hand, imp) {
        (_, Err(e)) if e.starts_with("MALFORMED") => "malformed-result".into(),
        (_, Err(e)) if e.starts_with("STALE-MARK") => format!("stale-sorted-mark:{bare}"),
        (H::Lead(_), Err(_)) => "empty-axis-error".into(),
        (H::Lead(_), Ok(_)) => "empty-axis-leading-length".into(),
        _ if x.rank() < k => "rows-depth-below-rank".into(),
        (H::V(_), Err(_)) => "error-vs-value".into(),
        (H::E(_), Ok(_)) => "value-vs-error".into(),
        (H::V(a), Ok(b)) if a.shape != b.shape => "shape".into(),
        (H::V(a), Ok(b)) if !same_class(a, b) => "type".into(),
        _ => "value".into(),
    }
}

// ---------------------------------------------------------------- search

fn search(r: &mut Rng, n: usize) {
    let mut rep = Rep { evals: 0, compared: 0, viol: 0, fam: BTreeMap::new(), seen: Default::default() };
    let mut ev = 0usize;
    // --- fixed corpus first: the inputs of earlier findings
    let corpus: Vec<(&str, &str, usize, Value)> = vec![
        ("≡", "/↥", 1, num(&[3], &[1., 2., 3.])),
        ("≡", "/↧", 1, num(&[3], &[1., 2., 3.])),
        ("≡", "/↥", 1, byte(&[3], &[1, 2, 3])),
        ("⍚", "⌵", 1, chars(&[2], &['a', 'b'])),
        ("⍚", "¯", 1, num(&[2], &[1., 2.])),
        ("≡", "/+", 2, chars(&[2], &['a', 'b'])),
        ("≡", "/↥", 2, chars(&[2], &['a', 'b'])),
        ("≡", "⊢", 1, num(&[0, 0], &[])),
        ("≡", "(⊢¤)", 2, num(&[2], &[1., 2.])),
        ("≡", "/↥", 1, num(&[2, 0], &[])),
        ("≡", "/↧", 1, byte(&[2, 0], &[])),
        ("≡", "□", 2, num(&[2, 3, 0], &[])),
        // repaired by 0eeae7e: a pervasive pulled out of rows/each failed on the type of an EMPTY array
        ("≡", "¬", 1, chars(&[0, 2], &[])),
        ("∵", "¬", 1, chars(&[0, 2], &[])),
        ("≡", "¬", 3, chars(&[0, 2], &[])),
        ("≡", "⌵", 1, boxes(&[0], vec![])),
        ("/", "⊂", 0, num(&[1], &[5.])),
    ];
    for (m, f, k, x) in &corpus {
        if *m == "/" {
            reduce_case(&mut rep, &mut ev, f, *k, x, false);
        } else {
            mapping_case(&mut rep, &mut ev, m, f, *k, x);
        }
    }
    dyadic_rows_case(&mut rep, &mut ev, "↻", &num(&[1, 2, 2], &[1., 0., 0., 1.]), &num(&[1, 2, 2], &[1., 2., 3., 4.]));
    // regression: each with three arguments and an empty argument panicked before commit 751fe5f
    each3_case(&mut rep, &mut ev, "(++)", &num(&[0], &[]), &num(&[], &[1.]), &num(&[], &[2.]));
    each3_case(&mut rep, &mut ev, "(⊂⊂)", &num(&[2, 0], &[]), &num(&[], &[1.]), &num(&[2, 0], &[]));
    marked_corpus(&mut rep, &mut ev);
    multi_corpus(&mut rep, &mut ev);
    routing_corpus(&mut rep, &mut ev, r);
    round5_corpus(&mut rep, &mut ev);
    round6_corpus(&mut rep, &mut ev);
    round7_corpus(&mut rep, &mut ev);
    let mut i = 0;
    while i < n {
        i += 1;
        if i % 6 == 3 {
            // operands with several outputs: all outputs compared in order
            let kind = r.below(10);
            if kind < 6 {
                let fi = r.below(MULTI_MON.len());
                let x = garr(r, 3, -1, 1, 2);
                let x = if r.chance(1, 10) { num(&[], &[r.range(0, 5) as f64]) } else { x };
                let modg = *r.pick(&["≡", "≡", "∵", "⍚"]);
                let k = 1 + r.below(2);
                multi_mon_case(&mut rep, &mut ev, modg, k, fi, &x);
            } else if kind < 9 {
                let fi = r.below(MULTI_DY.len());
                let x = garr(r, 2, -1, 1, 1);
                let table = r.chance(1, 2);
                let y = if table {
                    garr(r, 2, -1, 1, 1)
                } else {
                    let sh: Vec<usize> = x.shape.iter().copied().collect();
                    let d: Vec<f64> = (0..shape_len(&sh)).map(|_| r.range(-3, 6) as f64).collect();
                    num(&sh, &d)
                };
                multi_dy_case(&mut rep, &mut ev, table, fi, &x, &y);
            } else {
                let fi = r.below(MULTI_FOLD.len());
                let x = garr(r, 2, -1, 1, 1);
                let a1 = num(&[], &[r.range(0, 3) as f64]);
                let a2 = num(&[], &[r.range(0, 3) as f64]);
                multi_fold_case(&mut rep, &mut ev, fi, &x, &a1, &a2);
            }
            continue;
        }
        if i % 6 == 0 {
            // directed family: specialised operands on arguments that carry sortedness marks
            let rank = 1 + r.below(3);
            let bs = r.chance(1, 2);
            let x0 = gen_tied(r, rank, bs);
            let how = r.below(4);
            let x = if r.chance(7, 8) { mark(&x0, how, &mut ev) } else { x0 };
            let kind = r.below(7);
            let y = match kind {
                3 => num(&[], &[r.range(0, 3) as f64]),
                4 => {
                    let mut y0 = gen_tied(r, rank, bs);
                    if y0.shape.elements() == x.shape.elements() {
                        y0.shape = x.shape.clone();
                    }
                    let hy = r.below(4);
                    mark(&y0, hy, &mut ev)
                }
                _ => {
                    let ry = 1 + r.below(2);
                    let by = r.chance(1, 2);
                    let y0 = gen_tied(r, ry, by);
                    let hy = r.below(4);
                    mark(&y0, hy, &mut ev)
                }
            };
            let f = if kind >= 5 { *r.pick(FAST_MON) } else { *r.pick(FAST_DY) };
            let k = r.below(2);
            marked_case(&mut rep, &mut ev, kind, f, k, &x, &y);
            continue;
        }
        let fam = r.below(100);
        if fam < 34 {
            // rows, nesting 1..3
            let f = *r.pick(MON);
            let k = 1 + r.below(3);
            let x = garr(r, 3, -1, 1, 3);
            mapping_case(&mut rep, &mut ev, "≡", f, k, &x);
        } else if fam < 44 {
            let f = *r.pick(MON);
            let k = 1 + r.below(2);
            let x = garr(r, 3, -1, 1, 3);
            mapping_case(&mut rep, &mut ev, "⍚", f, k, &x);
        } else if fam < 50 {
            let f = *r.pick(MON);
            let x = garr(r, 2, -1, 1, 2);
            mapping_case(&mut rep, &mut ev, "∵", f, 1, &x);
            if r.chance(1, 3) {
                let x = garr(r, 2, -1, 1, 1);
                let y = num(&[], &[r.range(0, 4) as f64]);
                let z = if r.chance(1, 2) {
                    num(&[], &[r.range(0, 4) as f64])
                } else {
                    let sh: Vec<usize> = x.shape.iter().copied().collect();
                    let d: Vec<f64> = (0..shape_len(&sh)).map(|_| r.range(-3, 6) as f64).collect();
                    num(&sh, &d)
                };
                let f3 = *r.pick(&["(++)", "(⊂⊂)", "(⊟⊟)", "(+×)"]);
                each3_case(&mut rep, &mut ev, f3, &x, &y, &z);
            }
        } else if fam < 58 {
            // rows with two arguments (equal row counts, or a scalar)
            let f = *r.pick(DY);
            let x = garr(r, 3, -1, 1, 1);
            let y = {
                let mut sh: Vec<usize> = x.shape.iter().copied().collect();
                if r.chance(1, 3) && sh.len() > 1 {
                    sh.pop();
                }
                let d: Vec<f64> = (0..shape_len(&sh)).map(|_| r.range(-3, 6) as f64).collect();
                num(&sh, &d)
            };
            dyadic_rows_case(&mut rep, &mut ev, f, &x, &y);
        } else if fam < 66 {
            let f = *r.pick(DY);
            let x = garr(r, 2, -1, 1, 1);
            let y = garr(r, 2, -1, 1, 1);
            table_case(&mut rep, &mut ev, f, &x, &y);
            if r.chance(1, 4) {
                table_case_sub(&mut rep, &mut ev, "⊞₋₁", f, &x, &y);
            }
            if r.chance(1, 4) {
                let red = *r.pick(&["+", "×", "↥", "↧"]);
                reduce_table_case(&mut rep, &mut ev, red, f, &x, &y);
            }
        } else if fam < 76 {
            // reduce / scan, possibly under rows
            let f = *r.pick(DY);
            let k = r.below(3);
            let x = garr(r, 3, -1, 2, 3);
            let scan = r.chance(1, 3);
            reduce_case(&mut rep, &mut ev, f, k, &x, scan);
        } else if fam < 82 {
            let f = *r.pick(DY);
            let x = garr(r, 2, -1, 1, 1);
            let acc = garr(r, 1, 0, 1, 1);
            let acc = if r.chance(1, 2) { num(&[], &[r.range(0, 5) as f64]) } else { acc };
            fold_case(&mut rep, &mut ev, f, &x, &acc);
        } else if fam < 86 {
            let f = *r.pick(MON);
            let x = garr(r, 3, -1, 1, 2);
            let cnt = r.below(4);
            repeat_case(&mut rep, &mut ev, f, cnt, &x);
        } else if fam < 92 {
            let x = garr(r, 2, 0, 1, 2);
            let n = x.row_count();
            let idx: Vec<i64> = (0..n).map(|_| r.range(-1, 3)).collect();
            let part = r.chance(1, 2);
            group_case(&mut rep, &mut ev, &idx, &x, part);
        } else if r.chance(1, 2) {
            routing_case(&mut rep, &mut ev, r);
        } else {
            let kind = r.below(5);
            routing_pack_case(&mut rep, &mut ev, r, kind, None);
        }
    }
    rep.evals = ev;
    println!(
        "{{\"evaluations\":{},\"compared\":{},\"violations\":{},\"families\":{}}}",
        rep.evals,
        rep.compared,
        rep.viol,
        serde_json::to_string(&rep.fam).unwrap()
    );
}

// ---------------------------------------------------------------- operands with several outputs

/// (source, arguments, outputs, index of an output that is random (compared by shape only) or 9)
const MULTI_MON: &[(&str, usize, usize)] = &[
    ("(4 ¯)", 2, 9),
    ("(0 ¯)", 2, 9),
    ("(¬ 4 ¬)", 2, 9),
    ("(\"ab\" ⇌)", 2, 9),
    ("(1_2 ¯)", 2, 9),
    ("(⚂ ¯)", 2, 0),
    ("(⚂ ⇌)", 2, 0),
    ("(1 2 ¯)", 3, 9),
    ("(3 ⊸¯)", 3, 9),
    ("⊸¯", 2, 9),
    ("⟜¯", 2, 9),
    ("⊸⇌", 2, 9),
    ("⟜⇌", 2, 9),
    ("⊸⊢", 2, 9),
    ("⟜(+1)", 2, 9),
    ("⊸(5◌)", 2, 9),
    ("⟜(5◌)", 2, 9),
    ("⊃⇌△", 2, 9),
    ("⊃¯¬", 2, 9),
    ("⊃∘¯", 2, 9),
    ("⊃(¯|¬|⌵)", 3, 9),
    ("⊃(⇌|⊢|⧻)", 3, 9),
    ("(˜⊙∘⊸¯)", 2, 9),
    ("(⊸¯⇌)", 2, 9),
    ("(°⊟⊟⊸¯)", 2, 9),
];
const MULTI_DY: &[(&str, usize)] = &[
    ("⊃+-", 2),
    ("⊃+×", 2),
    ("⊃⊂⊟", 2),
    ("⟜+", 2),
    ("⊸+", 2),
    ("⊸⊂", 2),
    ("(4 +)", 2),
    ("(⚂ +)", 2),
    ("⊓¯¬", 2),
    ("⊓⇌∘", 2),
    ("˜⊙∘", 2),
    ("⊃(+|-|×)", 3),
    ("(1 ⊃+-)", 3),
];
/// fold operands: (source, iterated arrays, accumulators)
const MULTI_FOLD: &[(&str, usize, usize)] = &[("⊃+(×⊙⋅∘)", 1, 2), ("⊃(+⊙◌)(↥⊙⋅∘)", 1, 2), ("⊃(⊂⊙◌)(+⊙⋅∘)", 1, 2)];

fn transpose_h(items: Vec<Result<Vec<H>, String>>, outs: usize, n: usize) -> Vec<H> {
    (0..outs)
        .map(|j| {
            let col: Vec<H> = items
                .iter()
                .map(|it| match it {
                    Ok(v) => v[j].clone(),
                    Err(e) => H::E(e.clone()),
                })
                .collect();
            assemble(col, n)
        })
        .collect()
}

/// F applied once: all outputs, top first
fn call_multi(f: &str, args: &[Value], outs: usize, ev: &mut usize) -> Result<Vec<H>, String> {
    let o = calln("", f, args, ev)?;
    if o.len() != outs {
        return Err(format!("by hand: {} outputs", o.len()));
    }
    Ok(o.into_iter().map(H::V).collect())
}

fn hand_rows_multi(f: &str, xs: &[Value], k: usize, outs: usize, ev: &mut usize) -> Result<Vec<H>, String> {
    if k == 0 || xs.iter().all(|x| x.rank() == 0) {
        return call_multi(f, xs, outs, ev);
    }
    let n = xs.iter().filter(|x| x.rank() > 0).map(|x| x.row_count()).next().unwrap();
    let items: Vec<Result<Vec<H>, String>> = (0..n)
        .map(|i| {
            let rs: Vec<Value> = xs.iter().map(|x| if x.rank() == 0 { x.clone() } else { x.row(i) }).collect();
            hand_rows_multi(f, &rs, k - 1, outs, ev)
        })
        .collect();
    Ok(transpose_h(items, outs, n))
}

fn hand_each_multi(f: &str, x: &Value, outs: usize, ev: &mut usize) -> Result<Vec<H>, String> {
    let n = x.shape.elements();
    let sh: Vec<usize> = x.shape.iter().copied().collect();
    if n == 0 {
        let z = sh.iter().position(|&d| d == 0).unwrap();
        return Ok(vec![H::Lead(sh[..=z].to_vec()); outs]);
    }
    if x.rank() == 0 {
        return call_multi(f, &[x.clone()], outs, ev);
    }
    let mut flat = x.clone();
    flat.shape = [n].as_slice().into();
    let items: Vec<Result<Vec<H>, String>> = flat.rows().map(|e| call_multi(f, &[e], outs, ev)).collect();
    Ok(transpose_h(items, outs, n)
        .into_iter()
        .map(|h| match h {
            H::V(mut v) => {
                let mut s2 = sh.clone();
                s2.extend(v.shape.iter().skip(1).copied());
                v.shape = s2.as_slice().into();
                H::V(v)
            }
            h => h,
        })
        .collect())
}

fn hand_inventory_multi(f: &str, x: &Value, outs: usize, ev: &mut usize) -> Result<Vec<H>, String> {
    let boxed = |r: Result<Vec<H>, String>| -> Result<Vec<H>, String> {
        r.map(|v| {
            v.into_iter()
                .map(|h| match h {
                    H::V(v) => H::V(boxes(&[], vec![v])),
                    h => h,
                })
                .collect()
        })
    };
    if x.rank() == 0 {
        return boxed(call_multi(f, &[x.clone().unboxed()], outs, ev));
    }
    let n = x.row_count();
    let items: Vec<Result<Vec<H>, String>> = x.rows().map(|r| boxed(call_multi(f, &[r.unboxed()], outs, ev))).collect();
    Ok(transpose_h(items, outs, n))
}

fn hand_table_multi(f: &str, x: &Value, y: &Value, outs: usize, ev: &mut usize) -> Result<Vec<H>, String> {
    let nx = x.row_count();
    let ny = y.row_count();
    let items: Vec<Result<Vec<H>, String>> = x
        .rows()
        .map(|a| {
            let inner: Vec<Result<Vec<H>, String>> = y.rows().map(|b| call_multi(f, &[a.clone(), b], outs, ev)).collect();
            Ok(transpose_h(inner, outs, ny))
        })
        .collect();
    Ok(transpose_h(items, outs, nx))
}

/// ∧F x a1 a2: F gets the row, then the accumulators; returns the new accumulators
fn hand_fold_multi(f: &str, x: &Value, accs: &[Value], ev: &mut usize) -> Result<Vec<H>, String> {
    let mut accs: Vec<Value> = accs.to_vec();
    for r in rows_of(x) {
        let mut a = vec![r];
        a.extend(accs.iter().cloned());
        let o = calln("", f, &a, ev)?;
        if o.len() != accs.len() {
            return Err(format!("by hand: {} outputs", o.len()));
        }
        accs = o;
    }
    Ok(accs.into_iter().map(H::V).collect())
}

/// compare ALL outputs, in order, of `mods F` (direct / named / noise) with the by-hand outputs
fn multi_compare(rep: &mut Rep, ev: &mut usize, fam: &str, mods: &str, f: &str, args: &[Value], hand: &Result<Vec<H>, String>, rand_at: usize) {
    for (prelude, op, vname) in wrap_variants(f) {
        let src = format!("{prelude}{mods}{op}");
        *ev += 1;
        let mut st: Vec<Value> = args.to_vec();
        st.reverse();
        let imp = run_uiua_with(&src, &st).map(|mut o| {
            o.reverse();
            o
        });
        rep.count(fam);
        let ok = match (hand, &imp) {
            (Ok(hs), Ok(vs)) => {
                let any_err = hs.iter().any(|h| matches!(h, H::E(_)));
                !any_err
                    && hs.len() == vs.len()
                    && hs.iter().zip(vs.iter()).enumerate().all(|(j, (h, v))| {
                        if uiua::verif::check_value(v).is_err() {
                            return false;
                        }
                        if j == rand_at {
                            // a random output: only its shape is determined
                            match h {
                                H::V(a) => a.shape == v.shape,
                                H::Lead(p) => v.shape.len() >= p.len() && v.shape[..p.len()] == p[..],
                                H::E(_) => false,
                            }
                        } else {
                            agrees(h, &Ok(v.clone()))
                        }
                    })
            }
            (Ok(hs), Err(_)) => hs.iter().any(|h| matches!(h, H::E(_))),
            (Err(_), Err(_)) => true,
            (Err(_), Ok(_)) => false,
        };
        if !ok {
            let hs = match hand {
                Ok(hs) => hs.iter().map(show_h).collect::<Vec<_>>().join(" | "),
                Err(e) => format!("ERR {}", e.lines().next().unwrap_or("")),
            };
            let gs = match &imp {
                Ok(vs) => vs.iter().map(|v| show_r(&Ok(v.clone()))).collect::<Vec<_>>().join(" | "),
                Err(e) => format!("ERR {}", e.lines().next().unwrap_or("")),
            };
            let empty = args.iter().any(|a| a.shape.elements() == 0);
            let class = if empty { "multi-output-empty" } else { "multi-output" };
            rep.report(fam, class, f, vname, &src.replace('\n', " ; "), &args.iter().collect::<Vec<_>>(), &hs, &gs);
        }
    }
}

fn multi_mon_case(rep: &mut Rep, ev: &mut usize, modg: &str, k: usize, fi: usize, x: &Value) {
    let (f, outs, rand_at) = MULTI_MON[fi];
    let hand = match modg {
        "≡" => hand_rows_multi(f, &[x.clone()], k, outs, ev),
        "∵" => hand_each_multi(f, x, outs, ev),
        _ => hand_inventory_multi(f, x, outs, ev),
    };
    let hand = match hand {
        // an empty mapped axis: only the leading lengths of every output
        Ok(hs) => Ok(hs),
        e => e,
    };
    let mods = modg.repeat(if modg == "≡" { k } else { 1 });
    multi_compare(rep, ev, &format!("{modg}→{outs}"), &mods, f, &[x.clone()], &hand, rand_at);
}

fn multi_dy_case(rep: &mut Rep, ev: &mut usize, table: bool, fi: usize, x: &Value, y: &Value) {
    let (f, outs) = MULTI_DY[fi];
    let rand_at = if f.contains('⚂') { 0 } else { 9 };
    if table {
        if x.rank() == 0 || y.rank() == 0 {
            return;
        }
        let hand = hand_table_multi(f, x, y, outs, ev);
        multi_compare(rep, ev, &format!("⊞→{outs}"), "⊞", f, &[x.clone(), y.clone()], &hand, rand_at);
    } else {
        if x.rank() == 0 || y.rank() == 0 || x.row_count() != y.row_count() {
            return;
        }
        let hand = hand_rows_multi(f, &[x.clone(), y.clone()], 1, outs, ev);
        multi_compare(rep, ev, &format!("≡2→{outs}"), "≡", f, &[x.clone(), y.clone()], &hand, rand_at);
    }
}

fn multi_fold_case(rep: &mut Rep, ev: &mut usize, fi: usize, x: &Value, a1: &Value, a2: &Value) {
    let (f, _, _) = MULTI_FOLD[fi];
    let hand = hand_fold_multi(f, x, &[a1.clone(), a2.clone()], ev);
    multi_compare(rep, ev, "∧→2", "∧", f, &[x.clone(), a1.clone(), a2.clone()], &hand, 9);
}

/// regression: the programs of commit 3a3fb99 (f_mon2_fast_fn returned its pair swapped), then every
/// multi-output operand once on small fixed arguments
fn multi_corpus(rep: &mut Rep, ev: &mut usize) {
    let v12 = num(&[2], &[1., 2.]);
    let m = num(&[2, 2], &[1., 0., 3., 2.]);
    let s2 = num(&[], &[2.]);
    let bx = boxes(&[2], vec![num(&[2], &[1., 2.]), chars(&[1], &['a'])]);
    multi_mon_case(rep, ev, "≡", 1, 0, &v12); // ≡(4 ¯) [1 2]
    multi_mon_case(rep, ev, "≡", 1, 2, &v12); // ≡(¬ 4 ¬) [1 2]
    multi_mon_case(rep, ev, "∵", 1, 1, &s2); // ∵(0 ¯) 2
    for fi in 0..MULTI_MON.len() {
        for x in [&v12, &m, &s2, &num(&[0], &[]), &num(&[1, 2], &[5., 6.])] {
            for k in 1..=2 {
                multi_mon_case(rep, ev, "≡", k, fi, x);
            }
            multi_mon_case(rep, ev, "∵", 1, fi, x);
            multi_mon_case(rep, ev, "⍚", 1, fi, x);
        }
        multi_mon_case(rep, ev, "⍚", 1, fi, &bx);
    }
    for fi in 0..MULTI_DY.len() {
        multi_dy_case(rep, ev, false, fi, &v12, &num(&[2], &[5., 7.]));
        multi_dy_case(rep, ev, false, fi, &m, &m);
        multi_dy_case(rep, ev, true, fi, &v12, &num(&[3], &[5., 7., 9.]));
        multi_dy_case(rep, ev, true, fi, &m, &v12);
    }
    for fi in 0..MULTI_FOLD.len() {
        multi_fold_case(rep, ev, fi, &num(&[3], &[1., 2., 3.]), &num(&[], &[0.]), &num(&[], &[1.]));
        multi_fold_case(rep, ev, fi, &m, &num(&[], &[0.]), &num(&[2], &[1., 1.]));
    }
}

// ---------------------------------------------------------------- arguments that carry sortedness marks

/// give a value the marks the interpreter itself sets at run time: sort, reversed sort, select by rise
fn mark(x: &Value, how: usize, ev: &mut usize) -> Value {
    let prog = ["⍆", "⇌⍆", "⊏⊸⍏", "⇌⇌⍆"][how % 4];
    run1(prog, &[x.clone()], ev).unwrap_or_else(|_| x.clone())
}

/// an integer array of rank 1-3 with ties (values 0..3), byte or float storage
fn gen_tied(r: &mut Rng, rank: usize, byte_storage: bool) -> Value {
    let mut sh: Vec<usize> = (0..rank).map(|_| 1 + r.below(3)).collect();
    if rank > 1 && r.chance(1, 2) {
        sh[0] = 3;
    }
    if r.chance(1, 16) {
        let i = r.below(rank);
        sh[i] = 0;
    }
    let n = shape_len(&sh);
    if byte_storage {
        let d: Vec<u8> = (0..n).map(|_| r.below(4) as u8).collect();
        byte(&sh, &d)
    } else {
        let d: Vec<f64> = (0..n).map(|_| r.range(-1, 3) as f64).collect();
        num(&sh, &d)
    }
}

const FAST_DY: &[&str] = &["+", "×", "↥", "↧", "-", "=", "≠", "<", "≤", "˜-", "≥", "⊂"];
const FAST_MON: &[&str] = &["¬", "±", "¯", "⌵", "⇌", "⊢", "⊣", "⍆", "⍉", "/↥", "/↧", "/+", "\\↥", "\\↧", "⊛", "◴"];

/// one application of a modifier whose operand has a primitive-specialised path, on marked arguments
fn marked_case(rep: &mut Rep, ev: &mut usize, kind: usize, f: &str, k: usize, x: &Value, y: &Value) {
    let fl = uiua::verif::flags(x);
    *rep.fam.entry(if fl.1 || fl.2 { "marked-args".to_string() } else { "unmarked-args".to_string() }).or_default() += 1;
    match kind {
        0 => reduce_case(rep, ev, f, k, x, false),
        1 => reduce_case(rep, ev, f, k, x, true),
        2 => table_case(rep, ev, f, x, y),
        3 => fold_case(rep, ev, f, x, y),
        4 => {
            if x.shape == y.shape {
                dyadic_rows_case(rep, ev, f, x, y)
            }
        }
        5 => mapping_case(rep, ev, "≡", f, 1 + k, x),
        _ => mapping_case(rep, ev, "∵", f, 1, x),
    }
}

/// the fixed part of the directed family: every specialised reduce / scan operand on small
/// matrices whose rows are lexicographically ordered while a later column is not monotone
fn marked_corpus(rep: &mut Rep, ev: &mut usize) {
    // first at depth 2 keeps a sorted-up mark that the result does not satisfy (open finding)
    let x3 = mark(&num(&[3, 2, 2], &[0., 9., 3., 0., 2., 0., 2., 5., 2., 1., 0., 0.]), 0, ev);
    for f in ["⊢", "⊣", "(⍆⊢)", "(⍆⊣)"] {
        mapping_case(rep, ev, "≡", f, 2, &x3);
        mapping_case(rep, ev, "≡", f, 1, &x3);
    }
    let mats: Vec<Value> = vec![
        num(&[3, 2], &[2., 3., 1., 5., 1., 7.]),
        byte(&[3, 2], &[2, 3, 1, 5, 1, 7]),
        num(&[3, 2], &[1., 1., 1., 0., 0., 2.]),
        byte(&[2, 2, 2], &[1, 0, 0, 3, 0, 2, 2, 1]),
        num(&[4], &[2., 0., 2., 1.]),
        byte(&[4], &[2, 0, 2, 1]),
    ];
    for m in &mats {
        for how in 0..3 {
            let xm = mark(m, how, ev);
            for f in ["+", "×", "↥", "↧", "-", "=", "≥"] {
                for k in 0..2 {
                    marked_case(rep, ev, 0, f, k, &xm, &xm);
                    marked_case(rep, ev, 1, f, k, &xm, &xm);
                }
            }
            for f in ["+", "↥", "↧", "<"] {
                marked_case(rep, ev, 2, f, 0, &xm, &xm);
                marked_case(rep, ev, 3, f, 0, &xm, &num(&[], &[1.]));
                marked_case(rep, ev, 4, f, 0, &xm, &xm);
            }
            for f in ["¬", "¯", "⇌", "⊢", "⊣", "⍆", "/↥", "\\↥", "\\↧"] {
                marked_case(rep, ev, 5, f, 0, &xm, &xm);
            }
        }
    }
}

fn mapping_case(rep: &mut Rep, ev: &mut usize, m: &str, f: &str, k: usize, x: &Value) {
    let hand = match m {
        "≡" => hand_rows(f, x, k, ev),
        "⍚" => hand_inventory(f, x, k, ev),
        _ => hand_each(f, x, ev),
    };
    let mods: String = m.repeat(k);
    for (prelude, op, vname) in wrap_variants(f) {
        let src = format!("{prelude}{mods}{op}");
        let imp = run1(&src, &[x.clone()], ev);
        rep.count(m);
        if !agrees(&hand, &imp) {
            let class = classify(&hand, &imp, x, k, f, m);
            rep.report(m, &class, f, vname, &src.replace('\n', " ; "), &[x], &show_h(&hand), &show_r(&imp));
        }
    }
}

/// ∵F x y z (three arguments): scalars are repeated, arrays must share the shape of x
fn each3_case(rep: &mut Rep, ev: &mut usize, f: &str, x: &Value, y: &Value, z: &Value) {
    let n = x.shape.elements();
    let flat = |v: &Value| -> Vec<Value> {
        if v.rank() == 0 {
            return vec![v.clone(); n];
        }
        let mut w = v.clone();
        w.shape = [n].as_slice().into();
        w.rows().collect()
    };
    let hand = if n == 0 {
        let sh: Vec<usize> = x.shape.iter().copied().collect();
        let zi = sh.iter().position(|&d| d == 0).unwrap();
        H::Lead(sh[..=zi].to_vec())
    } else {
        let (xs, ys, zs) = (flat(x), flat(y), flat(z));
        let rs: Vec<H> = (0..n).map(|i| call1("", f, &[xs[i].clone(), ys[i].clone(), zs[i].clone()], ev)).collect();
        match assemble(rs, n) {
            H::V(mut v) => {
                let mut sh: Vec<usize> = x.shape.iter().copied().collect();
                sh.extend(v.shape.iter().skip(1).copied());
                v.shape = sh.as_slice().into();
                H::V(v)
            }
            h => h,
        }
    };
    for (prelude, op, vname) in wrap_variants(f) {
        let src = format!("{prelude}∵{op}");
        let imp = run1(&src, &[x.clone(), y.clone(), z.clone()], ev);
        rep.count("∵3");
        if !agrees(&hand, &imp) {
            let class = classify(&hand, &imp, x, 1, f, "∵3");
            rep.report("∵3", &class, f, vname, &src.replace('\n', " ; "), &[x, y, z], &show_h(&hand), &show_r(&imp));
        }
    }
}

fn dyadic_rows_case(rep: &mut Rep, ev: &mut usize, f: &str, x: &Value, y: &Value) {
    // by hand: zip the rows; a scalar is repeated
    let n = if x.rank() == 0 { rows_of(y).len() } else { x.row_count() };
    if y.rank() > 0 && x.rank() > 0 && y.row_count() != x.row_count() {
        return;
    }
    let (xr, yr) = (rows_of(x), rows_of(y));
    let rs: Vec<H> = (0..n)
        .map(|i| {
            let a = if x.rank() == 0 { x.clone() } else { xr[i].clone() };
            let b = if y.rank() == 0 { y.clone() } else { yr[i].clone() };
            call1("", f, &[a, b], ev)
        })
        .collect();
    let hand = if x.rank() == 0 && y.rank() == 0 { rs.into_iter().next().unwrap() } else { assemble(rs, n) };
    for (prelude, op, vname) in wrap_variants(f) {
        let src = format!("{prelude}≡{op}");
        let imp = run1(&src, &[x.clone(), y.clone()], ev);
        rep.count("≡2");
        if !agrees(&hand, &imp) {
            let class = classify(&hand, &imp, x, 1, f, "≡2");
            rep.report("≡2", &class, f, vname, &src.replace('\n', " ; "), &[x, y], &show_h(&hand), &show_r(&imp));
        }
    }
}

fn table_case(rep: &mut Rep, ev: &mut usize, f: &str, x: &Value, y: &Value) {
    table_case_sub(rep, ev, "⊞", f, x, y)
}

/// `tbl` is ⊞, or ⊞₋₁ (combinations of the cells one axis deep = of the rows), or, for lists, ⊞₋₂
fn table_case_sub(rep: &mut Rep, ev: &mut usize, tbl: &str, f: &str, x: &Value, y: &Value) {
    let hand = hand_table(f, x, y, ev);
    for (prelude, op, vname) in wrap_variants(f) {
        let src = format!("{prelude}{tbl}{op}");
        let imp = run1(&src, &[x.clone(), y.clone()], ev);
        rep.count(tbl);
        if !agrees(&hand, &imp) {
            let class = classify(&hand, &imp, x, 1, f, "⊞");
            rep.report(tbl, &class, f, vname, &src.replace('\n', " ; "), &[x, y], &show_h(&hand), &show_r(&imp));
        }
    }
}

/// `/F⊞G x y` (fused by the optimiser) against the table by hand, then the reduction by hand
fn reduce_table_case(rep: &mut Rep, ev: &mut usize, f: &str, g: &str, x: &Value, y: &Value) {
    if x.rank() == 0 || x.row_count() == 0 {
        return;
    }
    let hand = match hand_table(g, x, y, ev) {
        H::V(t) => hand_reduce(f, &t, ev),
        // an empty second axis: the reduction removes the first one
        H::Lead(p) if p.len() >= 2 => H::Lead(p[1..].to_vec()),
        h => h,
    };
    for (src, vname) in [(format!("/{f}⊞{g}"), "direct"), (format!("Fa ← {}\nGa ← {}\n/Fa⊞Ga", bare_of(f), bare_of(g)), "wrapper"), (format!("/({}∘)⊞({}∘)", bare_of(f), bare_of(g)), "noise")] {
        let imp = run1(&src, &[x.clone(), y.clone()], ev);
        rep.count("/⊞");
        if !agrees(&hand, &imp) {
            let class = classify(&hand, &imp, x, 1, f, "/⊞");
            rep.report("/⊞", &class, &format!("{f} {g}"), vname, &src.replace('\n', " ; "), &[x, y], &show_h(&hand), &show_r(&imp));
        }
    }
}

/// an argument that is a MAP must be iterated like its values: the result of `prog` on the map
/// is a valid value and equals (keys aside) the result on the plain values (41233b4, a57afbd, 2fb2751)
fn map_arg_case(rep: &mut Rep, ev: &mut usize, prog: &str, keys: &Value, vals: &Value, other: Option<&Value>) {
    let Ok(m) = run1("map", &[keys.clone(), vals.clone()], ev) else { return };
    let mut a_map = vec![m];
    let mut a_plain = vec![vals.clone()];
    if let Some(o) = other {
        a_map.push(o.clone());
        a_plain.push(o.clone());
    }
    let plain = run1(prog, &a_plain, ev);
    let hand = match &plain {
        Ok(v) => H::V(v.clone()),
        Err(e) => H::E(e.clone()),
    };
    // run1 also validates the result (shape, data, key count); keys that fit the rows may stay on
    // the result: they are taken off before the values are compared
    let imp = run1(prog, &a_map, ev).map(|v| run1("◌°map", &[v.clone()], ev).unwrap_or(v));
    rep.count("map-arg");
    if !agrees(&hand, &imp) {
        let args: Vec<&Value> = a_map.iter().collect();
        let class = if matches!(&imp, Err(e) if e.starts_with("MALFORMED")) { "malformed-result" } else { "map-keys" };
        rep.report("map-arg", class, prog, "direct", prog, &args, &show_h(&hand), &show_r(&imp));
    }
}

/// a9d65f9: rows of rotate when a row of the amount holds one amount, a list of amounts (the
/// rotation at a depth is used) or several lists of amounts (it must not be)
fn round7_corpus(rep: &mut Rep, ev: &mut usize) {
    let y = num(&[2, 2, 2], &[1., 2., 3., 4., 5., 6., 7., 8.]);
    let amounts: Vec<Value> = vec![
        num(&[2], &[1., 0.]),
        num(&[2, 2], &[1., 0., 0., 1.]),
        num(&[2, 1, 2], &[1., 0., 0., 1.]),
        num(&[2, 2, 2], &[1., 0., 0., 1., 1., 1., 0., 0.]),
        num(&[2, 1], &[1., 0.]),
    ];
    for a in &amounts {
        for f in ["↻", "˜↻", "(↻⊙⇌)", "(↻¯)"] {
            if f == "˜↻" {
                dyadic_rows_case(rep, ev, f, &y, a);
            } else {
                dyadic_rows_case(rep, ev, f, a, &y);
            }
        }
    }
    dyadic_rows_case(rep, ev, "↻", &num(&[1, 2, 2], &[1., 0., 0., 1.]), &num(&[1, 2, 2], &[1., 2., 3., 4.]));
    dyadic_rows_case(rep, ev, "≡↻", &num(&[2, 2, 2], &[1., 0., 0., 1., 1., 1., 0., 0.]), &y);
}

fn round6_corpus(rep: &mut Rep, ev: &mut usize) {
    let k3 = num(&[3], &[1., 2., 3.]);
    let v3 = num(&[3], &[4., 5., 6.]);
    let k1 = num(&[1], &[7.]);
    let v1 = num(&[1], &[8.]);
    let l3 = num(&[3], &[10., 20., 30.]);
    for p in ["∵¯", "≡⇌", "≡□", "∵(⊟⟜¯)", "≡(⊂0)", "/+", "\\+", "/⊂", "≡≡¯", "⍚⇌", "∵(+1)"] {
        map_arg_case(rep, ev, p, &k3, &v3, None);
        map_arg_case(rep, ev, p, &k1, &v1, None);
    }
    // the other argument gives the result more rows than the map has keys
    for p in ["≡⊂", "∵⊟", "≡+", "⊞+", "≡(⊂⇌)", "∵(⊟⊙¯)"] {
        map_arg_case(rep, ev, p, &k1, &v1, Some(&l3));
        map_arg_case(rep, ev, p, &k3, &v3, Some(&l3));
        map_arg_case(rep, ev, p, &k3, &v3, Some(&num(&[], &[2.])));
    }
}

/// regression inputs of the round-5 repairs that the families cover
fn round5_corpus(rep: &mut Rep, ev: &mut usize) {
    let l12 = num(&[2], &[1., 2.]);
    let l34 = num(&[2], &[3., 4.]);
    let m = num(&[2, 2], &[1., 0., 3., 2.]);
    // 13770ba / fca5c4a: subscripted table built a malformed array / crashed
    for f in ["⊟", "+", "⊂", "(⊟⊙⇌)"] {
        table_case_sub(rep, ev, "⊞₋₂", f, &l12, &l34);
        table_case_sub(rep, ev, "⊞₋₁", f, &l12, &l34);
        table_case_sub(rep, ev, "⊞₋₁", f, &m, &l34);
        table_case_sub(rep, ev, "⊞₋₁", f, &m, &m);
        table_case_sub(rep, ev, "⊞₋₁", f, &num(&[0], &[]), &l34);
    }
    // d541d8e: the fused reduce-table with min / max dropped NaN
    let nan = num(&[1], &[f64::NAN]);
    for (f, g) in [("↥", "-"), ("↧", "-"), ("↥", "+"), ("+", "×"), ("↧", "↥")] {
        reduce_table_case(rep, ev, f, g, &num(&[2], &[1., 1.]), &nan);
        reduce_table_case(rep, ev, f, g, &num(&[3], &[1., f64::NAN, 2.]), &l34);
        reduce_table_case(rep, ev, f, g, &l12, &l34);
        reduce_table_case(rep, ev, f, g, &m, &l34);
    }
    // b393eee: rows of no rows with rise / fall / reciprocal / fused abs forms
    for f in ["(⊏⍏.)", "(⊏⍖.)", "(×.⌵)", "(¯⌵)", "(÷1)", "⍏", "⍖"] {
        mapping_case(rep, ev, "≡", f, 1, &chars(&[0], &[]));
        mapping_case(rep, ev, "≡", f, 1, &num(&[0, 0], &[]));
        mapping_case(rep, ev, "≡", f, 1, &num(&[2, 3], &[3., 1., 2., 0., 5., 4.]));
    }
}

fn reduce_case(rep: &mut Rep, ev: &mut usize, f: &str, k: usize, x: &Value, scan: bool) {
    let g = if scan { "\\" } else { "/" };
    // the reduced axis must be non-empty (identities are documented only for some primitives)
    let sh: Vec<usize> = x.shape.iter().copied().collect();
    if sh.len() > k && sh[k] == 0 && !scan {
        return;
    }
    fn go(f: &str, x: &Value, k: usize, scan: bool, ev: &mut usize) -> H {
        if k == 0 {
            return if scan { hand_scan(f, x, ev) } else { hand_reduce(f, x, ev) };
        }
        if x.rank() == 0 {
            return go(f, x, k - 1, scan, ev);
        }
        let n = x.row_count();
        let rs: Vec<H> = x.rows().map(|r| go(f, &r, k - 1, scan, ev)).collect();
        assemble(rs, n)
    }
    if scan && x.rank() <= k {
        return;
    }
    let hand = go(f, x, k, scan, ev);
    let mods = "≡".repeat(k);
    for (prelude, op, vname) in wrap_variants(f) {
        let src = format!("{prelude}{mods}{g}{op}");
        let imp = run1(&src, &[x.clone()], ev);
        rep.count(g);
        if !agrees(&hand, &imp) {
            let class = classify(&hand, &imp, x, k, f, g);
            rep.report(g, &class, f, vname, &src.replace('\n', " ; "), &[x], &show_h(&hand), &show_r(&imp));
        }
    }
}

fn fold_case(rep: &mut Rep, ev: &mut usize, f: &str, x: &Value, acc: &Value) {
    let hand = hand_fold(f, x, acc, ev);
    for (prelude, op, vname) in wrap_variants(f) {
        let src = format!("{prelude}∧{op}");
        let imp = run1(&src, &[x.clone(), acc.clone()], ev);
        rep.count("∧");
        if !agrees(&hand, &imp) {
            rep.report("∧", "value", f, vname, &src.replace('\n', " ; "), &[x, acc], &show_h(&hand), &show_r(&imp));
        }
    }
}

fn repeat_case(rep: &mut Rep, ev: &mut usize, f: &str, n: usize, x: &Value) {
    let hand = hand_repeat(f, n, x, ev);
    for (prelude, op, vname) in wrap_variants(f) {
        let src = format!("{prelude}⍥{op} {n}");
        let imp = run1(&src, &[x.clone()], ev);
        rep.count("⍥");
        if !agrees(&hand, &imp) {
            rep.report("⍥", "value", f, vname, &src.replace('\n', " ; "), &[x], &show_h(&hand), &show_r(&imp));
        }
    }
}

fn group_case(rep: &mut Rep, ev: &mut usize, idx: &[i64], x: &Value, partition: bool) {
    let g = if partition { "⊜" } else { "⊕" };
    let hand = if partition { hand_partition_box(idx, x, ev) } else { hand_group_box(idx, x, ev) };
    let iv = num(&[idx.len()], &idx.iter().map(|&i| i as f64).collect::<Vec<_>>());
    for (prelude, op, vname) in wrap_variants("□") {
        let src = format!("{prelude}{g}{op}");
        let imp = run1(&src, &[iv.clone(), x.clone()], ev);
        rep.count(g);
        if !agrees(&hand, &imp) {
            rep.report(g, "value", "□", vname, &src.replace('\n', " ; "), &[&iv, x], &show_h(&hand), &show_r(&imp));
        }
    }
}

/// operands for the routing modifiers: (source, args, outputs)
const ROUTE_F: &[(&str, usize, usize)] = &[
    ("⇌", 1, 1),
    ("□", 1, 1),
    ("△", 1, 1),
    ("⊟", 2, 1),
    ("⊂", 2, 1),
    ("+", 2, 1),
    ("≍", 2, 1),
    ("(⊟⊟)", 3, 1),
    ("(⊃⇌△)", 1, 2),
    ("◌", 1, 0),
    ("7", 0, 1),
    ("(⊟⊙⇌)", 2, 1),
    ("(⊙◌)", 2, 1),
];

/// compare the whole stack after a routing program with the by-hand outcome (consumed arguments,
/// outputs top first); the untouched arguments beneath must still be there
fn routing_compare(rep: &mut Rep, ev: &mut usize, fam: &str, opd: &str, variants: &[(String, &str)], args: &[Value], hand: &Result<(usize, Vec<Value>), String>) {
    for (src, vname) in variants {
        *ev += 1;
        let mut st: Vec<Value> = args.to_vec();
        st.reverse();
        let imp = run_uiua_with(src, &st).map(|mut o| {
            o.reverse();
            o
        });
        rep.count(fam);
        let ok = match (hand, &imp) {
            (Ok((used, outs)), Ok(st)) => {
                let want: Vec<&Value> = outs.iter().chain(args[*used..].iter()).collect();
                want.len() == st.len() && want.iter().zip(st.iter()).all(|(a, b)| val_eq(a, b))
            }
            (Err(_), Err(_)) => true,
            _ => false,
        };
        if !ok {
            let hs = match hand {
                Ok((u, o)) => format!("consumes {u}, outputs {:?}", o.iter().map(|v| v.show().replace('\n', " ")).collect::<Vec<_>>()),
                Err(e) => format!("ERR {}", e.lines().next().unwrap_or("")),
            };
            let gs = match &imp {
                Ok(o) => format!("{:?}", o.iter().map(|v| v.show().replace('\n', " ")).collect::<Vec<_>>()),
                Err(e) => format!("ERR {}", e.lines().next().unwrap_or("")),
            };
            rep.report(fam, "routing", opd, vname, &src.replace('\n', " ; "), &args.iter().collect::<Vec<_>>(), &hs, &gs);
        }
    }
}

/// the three spellings of a modifier applied to a PACK of functions
fn pack_variants(m: &str, fs: &[(&str, usize, usize)], exp: &str) -> Vec<(String, &'static str)> {
    let bares: Vec<&str> = fs.iter().map(|f| bare_of(f.0)).collect();
    let mut v = vec![(format!("{exp}{m}({})", bares.join("|")), "direct")];
    let names = ["Fa", "Fb", "Fc", "Fd"];
    let mut pre = String::new();
    for (i, b) in bares.iter().enumerate() {
        pre.push_str(&format!("{} ← {}\n", names[i], b));
    }
    v.push((format!("{exp}{pre}{m}({})", names[..bares.len()].join("|")), "wrapper"));
    if fs.iter().all(|f| f.1 > 0) {
        v.push((format!("{exp}{m}({})", bares.iter().map(|b| format!("{b}∘")).collect::<Vec<_>>().join("|")), "noise"));
    }
    v
}

fn dist_args(r: &mut Rng, n: usize) -> Vec<Value> {
    (0..n).map(|i| if r.chance(1, 4) { gen_value(r, &gcfg(2), 0) } else { num(&[], &[(10 + i) as f64]) }).collect()
}

/// fork / bracket with packs of 3-4 functions of mixed arities, subscripted both / on / by / with / off,
/// chains of dip and gap
fn routing_pack_case(rep: &mut Rep, ev: &mut usize, r: &mut Rng, kind: usize, fixed: Option<&[(&str, usize, usize)]>) {
    let args = dist_args(r, 14);
    match kind {
        0 | 1 => {
            let n = 3 + r.below(2);
            let fs: Vec<(&str, usize, usize)> = match fixed {
                Some(f) => f.to_vec(),
                None => (0..n).map(|_| *r.pick(ROUTE_F)).collect(),
            };
            let m = if kind == 0 { "⊃" } else { "⊓" };
            let hand: Result<(usize, Vec<Value>), String> = (|| {
                let mut outs = Vec::new();
                let mut off = 0;
                for (f, fa, _) in &fs {
                    let a = if kind == 0 { &args[..*fa] } else { &args[off..off + fa] };
                    off += fa;
                    outs.extend(calln("", f, a, ev)?);
                }
                let used = if kind == 0 { fs.iter().map(|f| f.1).max().unwrap_or(0) } else { off };
                Ok((used, outs))
            })();
            let opd = fs.iter().map(|f| f.0).collect::<Vec<_>>().join("|");
            routing_compare(rep, ev, &format!("{m}pack"), &opd, &pack_variants(m, &fs, ""), &args, &hand);
        }
        2 => {
            // both with a numeric subscript: N sets of arguments
            let (f, fa, _) = *r.pick(ROUTE_F);
            if fa == 0 {
                return;
            }
            let n = 2 + r.below(3);
            let sub = ["₂", "₃", "₄"][n - 2];
            let hand: Result<(usize, Vec<Value>), String> = (|| {
                let mut outs = Vec::new();
                for i in 0..n {
                    outs.extend(calln("", f, &args[i * fa..(i + 1) * fa], ev)?);
                }
                Ok((n * fa, outs))
            })();
            let b = bare_of(f);
            let vars = vec![(format!("∩{sub}{f}"), "direct"), (format!("Fa ← {b}\n∩{sub}Fa"), "wrapper"), (format!("∩{sub}({b}∘)"), "noise")];
            routing_compare(rep, ev, "∩sub", f, &vars, &args, &hand);
        }
        3 => {
            // on / by / with / off keeping N = 2 arguments
            let (f, fa, _) = *r.pick(ROUTE_F);
            if fa < 2 {
                return;
            }
            let m = *r.pick(&["⟜", "⊸", "⤙", "⤚"]);
            let hand: Result<(usize, Vec<Value>), String> = (|| {
                let o = calln("", f, &args[..fa], ev)?;
                let outs = match m {
                    "⟜" => [args[..2].to_vec(), o].concat(),
                    "⊸" => [o, args[fa - 2..fa].to_vec()].concat(),
                    "⤙" => [args[fa - 2..fa].to_vec(), o].concat(),
                    _ => [o, args[..2].to_vec()].concat(),
                };
                Ok((fa, outs))
            })();
            let b = bare_of(f);
            let vars = vec![(format!("{m}₂{f}"), "direct"), (format!("Fa ← {b}\n{m}₂Fa"), "wrapper"), (format!("{m}₂({b}∘)"), "noise")];
            routing_compare(rep, ev, &format!("{m}sub"), f, &vars, &args, &hand);
        }
        _ => {
            // a chain of dips and gaps in front of F
            let (f, fa, _) = *r.pick(ROUTE_F);
            let len = 2 + r.below(2);
            let chain: Vec<&str> = (0..len).map(|_| *r.pick(&["⊙", "⋅"])).collect();
            let hand: Result<(usize, Vec<Value>), String> = (|| {
                let kept: Vec<Value> = chain.iter().enumerate().filter(|(_, c)| **c == "⊙").map(|(i, _)| args[i].clone()).collect();
                let o = calln("", f, &args[len..len + fa], ev)?;
                Ok((len + fa, [kept, o].concat()))
            })();
            let c = chain.concat();
            let b = bare_of(f);
            let mut vars = vec![(format!("{c}{}", if fa == 0 { format!("({f})") } else { f.to_string() }), "direct"), (format!("Fa ← {b}\n{c}Fa"), "wrapper")];
            if fa > 0 {
                vars.push((format!("{c}({b}∘)"), "noise"));
            }
            routing_compare(rep, ev, "⊙⋅chain", &format!("{c}{f}"), &vars, &args, &hand);
        }
    }
}

/// regression / directed: packs whose FIRST function takes fewer arguments than the maximum
fn routing_corpus(rep: &mut Rep, ev: &mut usize, r: &mut Rng) {
    let packs: Vec<Vec<(&str, usize, usize)>> = vec![
        vec![("¯", 1, 1), ("+", 2, 1), ("×", 2, 1)],
        vec![("□", 1, 1), ("⊟", 2, 1), ("(⊟⊟)", 3, 1)],
        vec![("⊟", 2, 1), ("(⊟⊟)", 3, 1), ("□", 1, 1)],
        vec![("7", 0, 1), ("(⊟⊟)", 3, 1), ("⊂", 2, 1), ("△", 1, 1)],
        vec![("(⊃⇌△)", 1, 2), ("◌", 1, 0), ("(⊟⊙⇌)", 2, 1), ("(⊟⊟)", 3, 1)],
    ];
    for p in &packs {
        routing_pack_case(rep, ev, r, 0, Some(p));
        routing_pack_case(rep, ev, r, 1, Some(p));
    }
    for kind in [2, 3, 4, 2, 3, 4] {
        routing_pack_case(rep, ev, r, kind, None);
    }
}

fn routing_case(rep: &mut Rep, ev: &mut usize, r: &mut Rng) {
    let mods = ["⊙", "⋅", "⟜", "⊸", "⤙", "⤚", "◠", "◡", "∩", "⊓", "⊃", "˜", "˙"];
    let m = *r.pick(&mods);
    let (f, fa, fo) = *r.pick(ROUTE_F);
    let (g, ga, go) = *r.pick(ROUTE_F);
    // five distinguishable arguments, a sentinel stays beneath
    let args: Vec<Value> = (0..6).map(|i| if r.chance(1, 3) { gen_value(r, &gcfg(2), 0) } else { num(&[], &[(10 + i) as f64]) }).collect();
    let two = m == "⊓" || m == "⊃";
    let fcall = |f: &str, a: &[Value], ev: &mut usize| calln("", f, a, ev);
    // by hand: (consumed, outputs top first) or error
    let hand: Result<(usize, Vec<Value>), String> = (|| {
        Ok(match m {
            "⊙" => {
                let o = fcall(f, &args[1..1 + fa], ev)?;
                (1 + fa, [vec![args[0].clone()], o].concat())
            }
            "⋅" => (1 + fa, fcall(f, &args[1..1 + fa], ev)?),
            "⟜" => {
                if fa == 0 {
                    return Err("skip".into());
                }
                let o = fcall(f, &args[..fa], ev)?;
                (fa, [vec![args[0].clone()], o].concat())
            }
            "⊸" => {
                let o = fcall(f, &args[..fa], ev)?;
                let na = fa.max(1);
                (na, [o, vec![args[na - 1].clone()]].concat())
            }
            "⤙" => {
                if fa == 0 {
                    return Err("skip".into());
                }
                let o = fcall(f, &args[..fa], ev)?;
                (fa, [vec![args[fa - 1].clone()], o].concat())
            }
            "⤚" => {
                if fa == 0 {
                    return Err("skip".into());
                }
                let o = fcall(f, &args[..fa], ev)?;
                (fa, [o, vec![args[0].clone()]].concat())
            }
            "◠" => {
                let o = fcall(f, &args[..fa], ev)?;
                (fa, [args[..fa].to_vec(), o].concat())
            }
            "◡" => {
                let o = fcall(f, &args[..fa], ev)?;
                (fa, [o, args[..fa].to_vec()].concat())
            }
            "∩" => {
                if fa == 0 {
                    return Err("skip".into());
                }
                // the second call runs first on the implementation: keep the error order
                let o2 = fcall(f, &args[fa..2 * fa], ev)?;
                let o1 = fcall(f, &args[..fa], ev)?;
                (2 * fa, [o1, o2].concat())
            }
            "⊓" => {
                let o2 = fcall(g, &args[fa..fa + ga], ev)?;
                let o1 = fcall(f, &args[..fa], ev)?;
                (fa + ga, [o1, o2].concat())
            }
            "⊃" => {
                let o2 = fcall(g, &args[..ga], ev)?;
                let o1 = fcall(f, &args[..fa], ev)?;
                (fa.max(ga), [o1, o2].concat())
            }
            "˜" => {
                if fa != 2 {
                    return Err("skip".into());
                }
                (2, fcall(f, &[args[1].clone(), args[0].clone()], ev)?)
            }
            _ => {
                if fa < 2 {
                    return Err("skip".into()); // self needs a function of at least 2 arguments
                }
                let a: Vec<Value> = (0..fa).map(|_| args[0].clone()).collect();
                (1, fcall(f, &a, ev)?)
            }
        })
    })();
    if matches!(&hand, Err(e) if e == "skip") {
        return;
    }
    let _ = (fo, go);
    let fb = bare_of(f);
    let gb = bare_of(g);
    let exp = if m == "◠" { "# Experimental!\n" } else { "" };
    let variants: Vec<(String, &str)> = if two {
        vec![
            (format!("{exp}{m}{}{}", if fa == 0 { format!("({f})") } else { f.to_string() }, if ga == 0 { format!("({g})") } else { g.to_string() }), "direct"),
            (format!("{exp}F ← {fb}\nG ← {gb}\n{m}F G"), "wrapper"),
            (format!("{exp}{m}({fb}∘)({gb}∘)"), "noise"),
        ]
    } else {
        vec![
            (format!("{exp}{m}{f}"), "direct"),
            (format!("{exp}F ← {fb}\n{m}F"), "wrapper"),
            (format!("{exp}{m}({fb}∘)"), "noise"),
        ]
    };
    for (src, vname) in variants {
        if vname == "noise" && (fa == 0 || (two && ga == 0)) {
            continue; // `(7∘)` is not the constant any more
        }
        *ev += 1;
        let mut st: Vec<Value> = args.clone();
        st.reverse();
        let imp = run_uiua_with(&src, &st).map(|mut o| {
            o.reverse();
            o
        });
        rep.count(m);
        let ok = match (&hand, &imp) {
            (Ok((used, outs)), Ok(st)) => {
                let want: Vec<&Value> = outs.iter().chain(args[*used..].iter()).collect();
                want.len() == st.len() && want.iter().zip(st.iter()).all(|(a, b)| val_eq(a, b))
            }
            (Err(_), Err(_)) => true,
            _ => false,
        };
        if !ok {
            let hs = match &hand {
                Ok((u, o)) => format!("consumes {u}, outputs {:?}", o.iter().map(|v| v.show().replace('\n', " ")).collect::<Vec<_>>()),
                Err(e) => format!("ERR {}", e.lines().next().unwrap_or("")),
            };
            let gs = match &imp {
                Ok(o) => format!("{:?}", o.iter().map(|v| v.show().replace('\n', " ")).collect::<Vec<_>>()),
                Err(e) => format!("ERR {}", e.lines().next().unwrap_or("")),
            };
            let opd = if two { format!("{f} {g}") } else { f.to_string() };
            rep.report(m, "routing", &opd, vname, &src.replace('\n', " ; "), &args.iter().collect::<Vec<_>>(), &hs, &gs);
        }
    }
}

// ---------------------------------------------------------------- tie: cases for the Coq model

/// catalogue operands: (source, Coq term of type mfn)
const CAT: &[(&str, &str)] = &[
    ("∘", "FId"),
    ("⇌", "FRev"),
    ("⍉", "FTrans"),
    ("⊢", "FFirst"),
    ("⊣", "FLast"),
    ("⍆", "FSort"),
    ("♭", "FDeshape"),
    ("¤", "FFix"),
    ("□", "FBox"),
    ("¯", "(FPerv PNeg)"),
    ("⌵", "(FPerv PAbs)"),
    ("⧻", "FLen"),
    ("△", "FShape"),
    ("/+", "(FReduce PAdd)"),
    ("/×", "(FReduce PMul)"),
    ("/↧", "(FReduce PMin)"),
    ("/↥", "(FReduce PMax)"),
    ("(⇌⍉)", "(FSeq FTrans FRev)"),
    ("(⊢⇌)", "(FSeq FRev FFirst)"),
    ("(⍉⊢)", "(FSeq FFirst FTrans)"),
    ("(⊢¤)", "(FSeq FFix FFirst)"),
    ("(♭¤)", "(FSeq FFix FDeshape)"),
    ("(□⇌)", "(FSeq FRev FBox)"),
    ("(⇌≡⇌)", "(FSeq (FRows FRev) FRev)"),
    ("(≡⇌≡⍉)", "(FSeq (FRows FTrans) (FRows FRev))"),
    ("(⊣⇌)", "(FSeq FRev FLast)"),
];

fn coq_elem(v: &Value, i: usize) -> Option<String> {
    Some(match v {
        Value::Num(a) => {
            let x = a.elements().nth(i)?;
            if x.fract() != 0.0 || x.abs() > 1e15 {
                return None;
            }
            let z = *x as i64;
            if z < 0 { format!("ENum ({z})") } else { format!("ENum {z}") }
        }
        Value::Byte(a) => format!("ENum {}", a.elements().nth(i)?),
        Value::Char(a) => format!("EChar {}", *a.elements().nth(i)? as u32),
        Value::Box(a) => {
            let b = &a.elements().nth(i)?.0;
            let (t, sh, d) = coq_parts(b)?;
            format!("EBox {t} {sh} {d}")
        }
        Value::Complex(_) => return None,
    })
}
fn coq_parts(v: &Value) -> Option<(String, String, String)> {
    let t = match v {
        Value::Num(_) | Value::Byte(_) => "TNum",
        Value::Char(_) => "TChar",
        Value::Box(_) => "TBox",
        Value::Complex(_) => return None,
    };
    let sh = format!("[{}]", v.shape.iter().map(|d| d.to_string()).collect::<Vec<_>>().join(";"));
    // the elements actually present (a malformed result is exported as it is)
    let n = match v {
        Value::Num(a) => a.elements().count(),
        Value::Byte(a) => a.elements().count(),
        Value::Char(a) => a.elements().count(),
        Value::Box(a) => a.elements().count(),
        Value::Complex(a) => a.elements().count(),
    };
    let mut d = Vec::with_capacity(n);
    for i in 0..n {
        d.push(coq_elem(v, i)?);
    }
    Some((t.to_string(), sh, format!("[{}]", d.join(";"))))
}
fn coq_arr(v: &Value) -> Option<String> {
    let (t, sh, d) = coq_parts(v)?;
    Some(format!("(Arr {t} {sh} {d})"))
}

fn tie(r: &mut Rng, n: usize) {
    let mut i = 0;
    let mut k_idx = 0usize;
    // fixed cases first
    let fixed: Vec<(usize, usize, Value)> = vec![
        (16, 1, num(&[3], &[1., 2., 3.])),
        (3, 1, num(&[0, 0], &[])),
        (20, 2, num(&[2], &[1., 2.])),
        (13, 2, num(&[2], &[1., 2.])),
        (1, 3, num(&[2, 2], &[1., 2., 3., 4.])),
        (8, 2, num(&[2, 3, 0], &[])),
    ];
    let mut emit = |ci: usize, k: usize, x: &Value, idx: &mut usize| {
        let (src, coq) = CAT[ci];
        let prog = format!("{}{}", "≡".repeat(k), src);
        let out = run_uiua_with(&prog, &[x.clone()]);
        let (outc, ok) = match &out {
            Ok(st) if st.len() == 1 => match coq_arr(&st[0]) {
                Some(a) => (format!("(Some {a})"), true),
                None => (String::new(), false), // not representable (infinity of an empty min/max)
            },
            Ok(_) => (String::new(), false),
            Err(_) => ("None".to_string(), true),
        };
        let Some(xa) = coq_arr(x) else { return };
        println!(
            "{{\"i\":{},\"prog\":{},\"k\":{},\"f\":{},\"x\":{},\"out\":{},\"rep\":{},\"show_x\":{},\"show_out\":{}}}",
            *idx,
            jstr(&prog),
            k,
            jstr(coq),
            jstr(&xa),
            jstr(&outc),
            ok,
            jstr(&format!("{} shape {:?}", x.show().replace('\n', " "), &*x.shape)),
            jstr(&match &out {
                Ok(st) => st
                    .iter()
                    .map(|v| {
                        let bad = uiua::verif::check_value(v).err().map(|e| format!("MALFORMED ({e}) ")).unwrap_or_default();
                        format!("{bad}{} shape {:?}", catch(|| v.show().replace('\n', " ")).unwrap_or_else(|_| "<unprintable>".into()), &*v.shape)
                    })
                    .collect::<Vec<_>>()
                    .join(" | "),
                Err(e) => format!("ERR {}", e.lines().next().unwrap_or("")),
            })
        );
        *idx += 1;
    };
    for (ci, k, x) in &fixed {
        emit(*ci, *k, x, &mut k_idx);
    }
    while i < n {
        i += 1;
        // every catalogue operand and nesting in turn, arrays random
        let ci = i % CAT.len();
        let k = 1 + (i / CAT.len()) % 3;
        let force = pick_force(r);
        let rank = 1 + r.below(4);
        let mut sh: Vec<usize> = (0..rank).map(|_| r.below(4)).collect();
        for d in sh.iter_mut() {
            if *d == 0 && r.chance(2, 3) {
                *d = 1 + r.below(3);
            }
        }
        match force {
            1 => sh[0] = 1,
            2 => sh[0] = 0,
            _ => {}
        }
        let d: Vec<f64> = (0..shape_len(&sh)).map(|_| r.range(-3, 6) as f64).collect();
        let x = if r.chance(1, 6) {
            let c: Vec<char> = d.iter().map(|v| (b'a' + (*v as i64 + 3) as u8) as char).collect();
            chars(&sh, &c)
        } else {
            num(&sh, &d)
        };
        emit(ci, k, &x, &mut k_idx);
    }
}

fn main() {
    let mode = std::env::args().nth(1).unwrap_or_default();
    let n: usize = std::env::args().nth(2).and_then(|s| s.parse().ok()).unwrap_or(100);
    let mut r = Rng::new(seed_from_env());
    match mode.as_str() {
        "tie" => tie(&mut r, n),
        "search" => search(&mut r, n),
        _ => eprintln!("usage: c07 tie|search N"),
    }
}
