//! C06: results do not depend on how an array happens to be stored.
//!   c06 tie N       -> JSON lines: operation histories on real `CowSlice<f64>` handles with the
//!                      contents / uniqueness / is_copy_of observations after every step
//!   c06 search N    -> JSON lines: storage-variant differential on real primitives
//!   c06 reduce N    -> JSON lines: /↧ and /↥ of byte lists under truthful marks (tie of Model/ReduceMarks.v)
//!   c06 programs    -> JSON lines: the complete programs that exposed defects (regression corpus) and controls
use uiua::verif::{self, Cow};
use uiua::{Array, Value};
use uvh::*;

// ------------------------------------------------------------------ tie: histories on Cow handles

fn nlist(xs: &[f64]) -> String {
    let mut s = String::from("[");
    for (i, x) in xs.iter().enumerate() {
        if i > 0 {
            s.push(';');
        }
        s.push_str(&format!("{}", *x as u64));
    }
    s.push(']');
    s
}

fn jlist(xs: &[f64]) -> String {
    let v: Vec<String> = xs.iter().map(|x| format!("{}", *x as u64)).collect();
    format!("[{}]", v.join(","))
}

struct Hist {
    hs: Vec<Cow>,
    steps: Vec<String>,
    counter: u64,
}

impl Hist {
    fn new() -> Self {
        Hist { hs: Vec::new(), steps: Vec::new(), counter: 10 }
    }
    fn fresh_elem(&mut self) -> f64 {
        self.counter += 1;
        self.counter as f64
    }
    fn fresh_list(&mut self, n: usize) -> Vec<f64> {
        (0..n).map(|_| self.fresh_elem()).collect()
    }
    /// record the observations after an operation
    fn observe(&mut self, op: String, r: &mut Rng) {
        let contents: Vec<String> = self.hs.iter().map(|h| jlist(&h.contents())).collect();
        let uniq: Vec<String> = self.hs.iter_mut().map(|h| h.is_unique().to_string()).collect();
        let n = self.hs.len();
        let mut cps = Vec::new();
        if n > 0 {
            for _ in 0..3 {
                let (i, j) = (r.below(n), r.below(n));
                cps.push(format!("[{},{},{}]", i, j, self.hs[i].is_copy_of(&self.hs[j])));
            }
        }
        self.steps.push(format!(
            "{{\"op\":{},\"c\":[{}],\"u\":[{}],\"cp\":[{}]}}",
            jstr(&op),
            contents.join(","),
            uniq.join(","),
            cps.join(",")
        ));
    }
    /// apply an operation given in the model's syntax; returns false when not applicable
    fn apply(&mut self, op: &Op) {
        match op.clone() {
            Op::New(l) => self.hs.push(Cow::from_vec(l)),
            Op::Clone(i) => {
                let c = self.hs[i].clone();
                self.hs.push(c)
            }
            Op::Slice(i, a, b) => {
                let c = self.hs[i].slice(a, b);
                self.hs.push(c)
            }
            Op::IntoSlices(i, size) => {
                let h = self.hs.remove(i);
                let parts = h.into_slices(size);
                self.hs.extend(parts);
            }
            Op::Write(i, k, x) => self.hs[i].write(k, x),
            Op::Truncate(i, n) => self.hs[i].truncate(n),
            Op::ExtSlice(i, l) => self.hs[i].extend_from_slice(&l),
            Op::ExtVec(i, l, iter) => {
                if iter {
                    self.hs[i].extend_iter(l)
                } else {
                    self.hs[i].extend_from_vec(l)
                }
            }
            Op::ExtCow(i, j) => {
                // the other handle is moved into the call and dropped by it
                let other = self.hs.remove(j);
                let i2 = if j < i { i - 1 } else { i };
                self.hs[i2].extend_from_cow(other);
            }
            Op::ExtRepeat(i, x, n) => self.hs[i].extend_repeat(x, n),
            Op::ExtRepeatFill(i, x, left, n) => self.hs[i].extend_repeat_fill(x, left, n),
            Op::ExtRepeatSlice(i, l, n) => self.hs[i].extend_repeat_slice(&l, n),
            Op::ExtRepeatSliceFill(i, l, left, n) => self.hs[i].extend_repeat_slice_fill(&l, left, n),
            Op::Remove(i, a, b) => self.hs[i].remove(a, b),
            Op::Clear(i) => self.hs[i].clear(),
            Op::Reserve(i, n) => self.hs[i].reserve(n),
            Op::SplitOff(i, at) => {
                let o = self.hs[i].split_off(at);
                self.hs.push(o)
            }
            Op::Drop(i, into_vec) => {
                let h = self.hs.remove(i);
                if into_vec {
                    let _ = h.into_vec();
                } else {
                    drop(h)
                }
            }
        }
    }
}

#[derive(Clone, Debug)]
enum Op {
    New(Vec<f64>),
    Clone(usize),
    Slice(usize, usize, usize),
    IntoSlices(usize, usize),
    Write(usize, usize, f64),
    Truncate(usize, usize),
    ExtSlice(usize, Vec<f64>),
    ExtVec(usize, Vec<f64>, bool),
    ExtCow(usize, usize),
    ExtRepeat(usize, f64, usize),
    ExtRepeatFill(usize, f64, bool, usize),
    ExtRepeatSlice(usize, Vec<f64>, usize),
    ExtRepeatSliceFill(usize, Vec<f64>, bool, usize),
    Remove(usize, usize, usize),
    Clear(usize),
    Reserve(usize, usize),
    SplitOff(usize, usize),
    Drop(usize, bool),
}

impl Op {
    fn coq(&self) -> String {
        match self {
            Op::New(l) => format!("ONew {}", nlist(l)),
            Op::Clone(i) => format!("OClone {i}"),
            Op::Slice(i, a, b) => format!("OSlice {i} {a} {b}"),
            Op::IntoSlices(i, s) => format!("OIntoSlices {i} {s}"),
            Op::Write(i, k, x) => format!("OWrite {i} {k} {}", *x as u64),
            Op::Truncate(i, n) => format!("OTruncate {i} {n}"),
            Op::ExtSlice(i, l) => format!("OExtSlice {i} {}", nlist(l)),
            Op::ExtVec(i, l, _) => format!("OExtVec {i} {}", nlist(l)),
            Op::ExtCow(i, j) => format!("OExtCow {i} {j}"),
            Op::ExtRepeat(i, x, n) => format!("OExtRepeat {i} {} {n}", *x as u64),
            Op::ExtRepeatFill(i, x, l, n) => format!("OExtRepeatFill {i} {} {l} {n}", *x as u64),
            Op::ExtRepeatSlice(i, l, n) => format!("OExtRepeatSlice {i} {} {n}", nlist(l)),
            Op::ExtRepeatSliceFill(i, l, lf, n) => format!("OExtRepeatSliceFill {i} {} {lf} {n}", nlist(l)),
            Op::Remove(i, a, b) => format!("ORemove {i} {a} {b}"),
            Op::Clear(i) => format!("OClear {i}"),
            Op::Reserve(i, n) => format!("OReserve {i} {n}"),
            Op::SplitOff(i, at) => format!("OSplitOff {i} {at}"),
            Op::Drop(i, _) => format!("ODrop {i}"),
        }
    }
    fn kind(&self) -> &'static str {
        match self {
            Op::New(_) => "new",
            Op::Clone(_) => "clone",
            Op::Slice(..) => "slice",
            Op::IntoSlices(..) => "into_slices",
            Op::Write(..) => "write",
            Op::Truncate(..) => "truncate",
            Op::ExtSlice(..) => "extend_from_slice",
            Op::ExtVec(_, _, false) => "extend_from_vec",
            Op::ExtVec(_, _, true) => "extend_iter",
            Op::ExtCow(..) => "extend_from_cow",
            Op::ExtRepeat(..) => "extend_repeat",
            Op::ExtRepeatFill(_, _, false, _) => "extend_repeat_fill",
            Op::ExtRepeatFill(_, _, true, _) => "extend_repeat_fill_left",
            Op::ExtRepeatSlice(..) => "extend_repeat_slice",
            Op::ExtRepeatSliceFill(_, _, false, _) => "extend_repeat_slice_fill",
            Op::ExtRepeatSliceFill(_, _, true, _) => "extend_repeat_slice_fill_left",
            Op::Remove(..) => "remove",
            Op::Clear(_) => "clear",
            Op::Reserve(..) => "reserve",
            Op::SplitOff(..) => "split_off",
            Op::Drop(_, false) => "drop",
            Op::Drop(_, true) => "into_vec",
        }
    }
}

const MAXLEN: usize = 14;
const MAXH: usize = 7;

fn gen_op(h: &mut Hist, r: &mut Rng, left_fill: bool) -> Op {
    loop {
        let n = h.hs.len();
        if n == 0 {
            let k = r.below(6);
            return Op::New(h.fresh_list(k));
        }
        let i = r.below(n);
        let len = h.hs[i].len();
        let room = MAXLEN.saturating_sub(len);
        let small = |r: &mut Rng| if room == 0 { 0 } else { r.below(room.min(4) + 1) };
        match r.below(26) {
            0 => {
                if n < MAXH {
                    let k = if r.chance(1, 5) { 0 } else { r.below(7) };
                    return Op::New(h.fresh_list(k));
                }
            }
            1 | 2 => {
                if n < MAXH {
                    return Op::Clone(i);
                }
            }
            3 | 4 => {
                if n < MAXH {
                    let a = r.below(len + 1);
                    let b = a + r.below(len - a + 1);
                    return Op::Slice(i, a, b);
                }
            }
            5 => {
                let mut sizes = vec![0usize];
                for s in 1..=len.max(1) {
                    if len % s == 0 && len / s + n - 1 <= MAXH + 2 {
                        sizes.push(s);
                    }
                }
                return Op::IntoSlices(i, *r.pick(&sizes));
            }
            6 | 7 => {
                if len > 0 {
                    let x = h.fresh_elem();
                    return Op::Write(i, r.below(len), x);
                }
            }
            8 | 9 => return Op::Truncate(i, r.below(len + 3)),
            10 => {
                let k = small(r);
                return Op::ExtSlice(i, h.fresh_list(k));
            }
            11 => {
                let k = small(r);
                return Op::ExtVec(i, h.fresh_list(k), r.chance(1, 2));
            }
            12 => {
                if n >= 2 {
                    let j = r.below(n);
                    if j != i && len + h.hs[j].len() <= MAXLEN + 4 {
                        return Op::ExtCow(i, j);
                    }
                }
            }
            13 => {
                let x = h.fresh_elem();
                return Op::ExtRepeat(i, x, small(r));
            }
            14 | 15 => {
                let x = h.fresh_elem();
                let left = left_fill && r.chance(1, 2);
                return Op::ExtRepeatFill(i, x, left, small(r));
            }
            16 => {
                let k = r.below(3);
                let reps = if room == 0 { 0 } else { r.below(room / k.max(1) + 1).min(3) };
                return Op::ExtRepeatSlice(i, h.fresh_list(k), reps);
            }
            17 => {
                // mostly short ranges away from the front (the tail of the rotation stays visible)
                let a = r.below(len + 1);
                let b = a + if r.chance(2, 3) { r.below((len - a).min(1) + 1) } else { r.below(len - a + 1) };
                return Op::Remove(i, a, b);
            }
            24 | 25 => {
                let k = r.below(4);
                let reps = if room == 0 { 0 } else { r.below(room / k.max(1) + 1).min(3) };
                let left = left_fill && r.chance(2, 3);
                return Op::ExtRepeatSliceFill(i, h.fresh_list(k), left, reps);
            }
            18 => return Op::Clear(i),
            19 => return Op::Reserve(i, r.below(4)),
            20 => {
                if n < MAXH {
                    return Op::SplitOff(i, r.below(len + 1));
                }
            }
            _ => return Op::Drop(i, r.chance(1, 3)),
        }
    }
}

/// directed histories (always run first): the shapes of sharing that matter
fn corpus() -> Vec<Vec<Op>> {
    use Op::*;
    let l = |xs: &[u32]| xs.iter().map(|x| *x as f64).collect::<Vec<f64>>();
    vec![
        // unique window with a hidden prefix, then left fill
        vec![New(l(&[1, 2, 3])), Slice(0, 1, 3), Drop(0, false), ExtRepeatFill(0, 9.0, true, 2)],
        // slice-valued left fill (the form used by take) on a unique window with a hidden prefix
        vec![New(l(&[1, 2, 3, 4])), Slice(0, 2, 4), Drop(0, false), ExtRepeatSliceFill(0, l(&[8, 9]), true, 2), ExtRepeatSliceFill(0, l(&[7]), true, 1), ExtRepeatSliceFill(0, vec![], true, 3)],
        // the same with a right fill (in place, correct)
        vec![New(l(&[1, 2, 3])), Slice(0, 1, 3), Drop(0, false), ExtRepeatFill(0, 9.0, false, 2)],
        // last piece of into_slices after the others are gone
        vec![New(l(&[1, 2, 3, 4, 5, 6])), IntoSlices(0, 2), Drop(0, false), Drop(0, false), ExtRepeatFill(0, 7.0, true, 1), ExtVec(0, l(&[8]), false)],
        // left fill on a shared buffer, on a full window, on an empty handle
        vec![New(l(&[1, 2])), Clone(0), ExtRepeatFill(0, 9.0, true, 2), ExtRepeatFill(1, 8.0, true, 1), New(vec![]), ExtRepeatFill(2, 7.0, true, 3)],
        // unallocated vectors are always unique; allocated empty ones are counted
        vec![New(vec![]), Clone(0), New(l(&[1])), Truncate(2, 0), Clone(2), ExtVec(0, l(&[5]), true), ExtVec(3, l(&[6]), false)],
        // truncate of a unique window cuts the underlying buffer; then extend in place
        vec![New(l(&[1, 2, 3, 4, 5])), Slice(0, 1, 4), Drop(0, false), Truncate(0, 2), ExtVec(0, l(&[9]), false), Write(0, 0, 7.0)],
        // truncate on a shared window only moves the end; the parent keeps everything
        vec![New(l(&[1, 2, 3, 4, 5])), Slice(0, 1, 4), Truncate(1, 1), ExtVec(1, l(&[9]), false), Write(0, 2, 7.0), Write(1, 0, 6.0)],
        // clear: unique full, unique window, shared
        vec![New(l(&[1, 2, 3])), Clear(0), Clone(0), New(l(&[4, 5, 6])), Slice(2, 1, 2), Drop(2, false), Clear(2), New(l(&[7])), Clone(3), Clear(3)],
        // split_off, remove, reserve on shared and unique
        vec![New(l(&[1, 2, 3, 4])), Clone(0), SplitOff(0, 1), Remove(1, 1, 3), Reserve(1, 2), Reserve(2, 0), SplitOff(2, 3), Remove(0, 0, 1)],
        // remove on a uniquely owned window with a hidden prefix must not run in place (modify needs start == 0)
        vec![New(l(&[1, 2, 3, 4, 5])), Slice(0, 2, 5), Drop(0, false), Remove(0, 2, 2), New(l(&[1, 2, 3, 4, 5, 6])), Slice(1, 2, 6), Drop(1, false), Remove(1, 2, 3), ExtSlice(1, l(&[9]))],
        // extend_from_cowslice with a handle on the same buffer
        vec![New(l(&[1, 2, 3])), Clone(0), ExtCow(0, 1), New(l(&[4])), ExtCow(0, 1), Slice(0, 1, 2), ExtCow(1, 0)],
    ]
}

fn tie(n: usize, seed: u64) {
    let mut r = Rng::new(seed);
    let mut idx = 0usize;
    let mut emit = |h: &Hist| {
        println!("{{\"h\":{},\"steps\":[{}]}}", idx, h.steps.join(","));
        idx += 1;
    };
    for ops in corpus() {
        let mut h = Hist::new();
        for op in &ops {
            h.apply(op);
            h.observe(op.coq() + "|" + op.kind(), &mut r);
        }
        emit(&h);
    }
    for t in 0..n {
        let mut h = Hist::new();
        let steps = 12 + r.below(28);
        // two thirds of the histories contain left fills
        let left = t % 3 != 0;
        for _ in 0..steps {
            let op = gen_op(&mut h, &mut r, left);
            h.apply(&op);
            h.observe(op.coq() + "|" + op.kind(), &mut r);
        }
        emit(&h);
    }
}

// ------------------------------------------------------------------ search: storage variants

#[derive(Clone, Copy, PartialEq, Debug)]
struct Variant {
    byte: bool,
    marks: u8, // 0 kept, 1 cleared, 2 recomputed
    own: u8,   // 0 fresh, 1 clone kept alive, 2 slice of a larger shared buffer, 3 slice of a larger buffer whose other references are gone
}

impl Variant {
    fn all() -> Vec<Variant> {
        let mut v = Vec::new();
        for byte in [false, true] {
            for marks in 0..3 {
                for own in 0..4 {
                    v.push(Variant { byte, marks, own });
                }
            }
        }
        v
    }
    fn show(&self) -> String {
        format!(
            "{}/{}/{}",
            if self.byte { "byte" } else { "float" },
            ["kept", "cleared", "recomputed"][self.marks as usize],
            ["fresh", "shared", "slice", "slice-unique"][self.own as usize]
        )
    }
}

enum Keeper {
    None,
    Dup(Value),
    NumWhole(Cow, Vec<f64>),
    ByteWhole(Value, Vec<u8>),
}

fn f64_data(v: &Value) -> Vec<f64> {
    match v {
        Value::Num(a) => a.elements().copied().collect(),
        Value::Byte(a) => a.elements().map(|x| *x as f64).collect(),
        _ => vec![],
    }
}

/// truthful sortedness of the rows (lexicographic, numbers without NaN)
fn truthful(v: &Value) -> (bool, bool) {
    let d = f64_data(v);
    if d.iter().any(|x| x.is_nan()) || v.rank() == 0 {
        return (false, false);
    }
    let rc = v.row_count();
    let rl = if rc == 0 { 0 } else { d.len() / rc };
    let (mut up, mut down) = (true, true);
    for i in 1..rc {
        let a = &d[(i - 1) * rl..i * rl];
        let b = &d[i * rl..(i + 1) * rl];
        let o = a.iter().zip(b).map(|(x, y)| x.partial_cmp(y).unwrap()).find(|o| o.is_ne()).unwrap_or(std::cmp::Ordering::Equal);
        if o.is_gt() {
            up = false
        }
        if o.is_lt() {
            down = false
        }
    }
    (up, down)
}

/// Build a storage variant of a numeric base value.  None when the variant does not exist
/// (byte storage of non-byte data).
fn make_variant(base: &Value, var: Variant) -> Option<(Value, Keeper)> {
    let mut v = if var.byte { verif::to_byte_storage(base)? } else { verif::to_num_storage(base) };
    match var.marks {
        0 => {}
        1 => verif::clear_flags(&mut v),
        _ => {
            verif::clear_flags(&mut v);
            let (up, down) = truthful(&v);
            verif::set_sorted(&mut v, up, down);
        }
    }
    let shape: Vec<usize> = v.shape.iter().copied().collect();
    // 0: a buffer of its own
    let fresh = match &v {
        Value::Num(a) => {
            let d: Vec<f64> = a.elements().copied().collect();
            let mut b = Array::<f64>::new(shape.as_slice(), d.as_slice());
            b.meta = a.meta.clone();
            Value::Num(b)
        }
        Value::Byte(a) => {
            let d: Vec<u8> = a.elements().copied().collect();
            let mut b = Array::<u8>::new(shape.as_slice(), d.as_slice());
            b.meta = a.meta.clone();
            Value::Byte(b)
        }
        _ => return None,
    };
    match var.own {
        0 => Some((fresh, Keeper::None)),
        1 => {
            let dup = fresh.clone();
            Some((fresh, Keeper::Dup(dup)))
        }
        _ => match &fresh {
            Value::Num(a) => {
                let d: Vec<f64> = a.elements().copied().collect();
                let (mut w, keep) = verif::num_slice_of_larger(&d, &shape, 3, 2);
                if let Value::Num(wa) = &mut w {
                    wa.meta = a.meta.clone();
                }
                let whole = keep.contents();
                if var.own == 3 {
                    drop(keep);
                    return Some((w, Keeper::None));
                }
                Some((w, Keeper::NumWhole(keep, whole)))
            }
            Value::Byte(a) => {
                let d: Vec<u8> = a.elements().copied().collect();
                let (mut w, keep) = verif::byte_slice_of_larger(&d, &shape, 3, 2);
                if let Value::Byte(wa) = &mut w {
                    wa.meta = a.meta.clone();
                }
                let whole: Vec<u8> = match &keep {
                    Value::Byte(k) => k.elements().copied().collect(),
                    _ => vec![],
                };
                if var.own == 3 {
                    drop(keep);
                    return Some((w, Keeper::None));
                }
                Some((w, Keeper::ByteWhole(keep, whole)))
            }
            _ => None,
        },
    }
}

fn bits_eq(a: &[f64], b: &[f64]) -> bool {
    a.len() == b.len() && a.iter().zip(b).all(|(x, y)| x.to_bits() == y.to_bits())
}

/// is the retained duplicate unchanged?
fn keeper_intact(k: &Keeper, orig: &[f64], orig_shape: &[usize]) -> Result<(), String> {
    match k {
        Keeper::None => Ok(()),
        Keeper::Dup(d) => {
            if !bits_eq(&f64_data(d), orig) || d.shape.iter().copied().collect::<Vec<_>>() != orig_shape {
                return Err(format!("the retained clone changed: {:?} (was {:?})", f64_data(d), orig));
            }
            Ok(())
        }
        Keeper::NumWhole(c, whole) => {
            if !bits_eq(&c.contents(), whole) {
                return Err(format!("the larger buffer changed: {:?} (was {:?})", c.contents(), whole));
            }
            Ok(())
        }
        Keeper::ByteWhole(v, whole) => {
            let now: Vec<u8> = match v {
                Value::Byte(k) => k.elements().copied().collect(),
                _ => vec![],
            };
            if &now != whole {
                return Err(format!("the larger buffer changed: {:?} (was {:?})", now, whole));
            }
            Ok(())
        }
    }
}

#[derive(Clone)]
enum Outcome {
    Ok(Vec<Value>),
    Err(String),
}

fn outcome_eq(a: &Outcome, b: &Outcome) -> Result<(), String> {
    match (a, b) {
        (Outcome::Ok(x), Outcome::Ok(y)) => {
            if x.len() != y.len() {
                return Err("stack height".into());
            }
            for (p, q) in x.iter().zip(y) {
                if p != q {
                    return Err("value".into());
                }
                if p.shape != q.shape {
                    return Err("shape".into());
                }
                if p.type_name() != q.type_name() {
                    return Err("type".into());
                }
            }
            Ok(())
        }
        (Outcome::Err(x), Outcome::Err(y)) => {
            if x == y {
                Ok(())
            } else {
                Err("error-text".into())
            }
        }
        _ => Err("ok-vs-error".into()),
    }
}

fn show_outcome(o: &Outcome) -> String {
    match o {
        Outcome::Ok(st) => st.iter().map(|v| format!("{:?} shape {:?}", v, v.shape)).collect::<Vec<_>>().join(" | "),
        Outcome::Err(e) => format!("ERR {}", e.lines().next().unwrap_or("")),
    }
}

fn show_val(v: &Value) -> String {
    format!("{:?} shape {:?}", v, v.shape.iter().copied().collect::<Vec<_>>())
}

const MONADIC: &[&str] = &[
    "¬", "±", "¯", "⌵", "√", "∿", "⌊", "⌈", "⁅", "⧻", "△", "⊢", "⊣", "⇌", "♭", "¤", "⋯", "⍉", "⍆", "⍏", "⍖", "⊚", "⊛", "◴", "◰", "□", "⇡↧3",
    "/+", "/×", "/↥", "/↧", "/-", "/=", "\\+", "\\×", "\\↥", "\\↧", "≡/+", "≡/↥", "≡/↧", "≡≡/↥", "≡/×", "≡⇌", "≡⊢", "≡⊣", "≡⍆", "≡⍏", "≡◴", "≡□", "≡\\+", "≡(⊂1)",
    "⍚⇌", "⊞+.", "⊞=.", "⊸+", "+⟜⇌", "/↥♭", "/↧♭", "/↥⍉", "⍜⊢(+1)", "⍜(↙2)⇌", "⍜⇌(⊂9)", "⍜♭⇌", "⍆⇌", "⊏⊸⍏", "⊢⍆", "⊣⍆", "⊢⇌⍆",
    "↙2", "↙¯2", "↘1", "↘¯1", "↻1", "↻¯1", "▽2", "⊏0", "⊡0", "↯[2 ¯1]", "↯5", "⊂1", "⊂⊙1", "⊟.", "˜⊂.", "⊂.", "+1", "×2", "÷2", "+0.5", "=1", "<2", "↥1", "↧1", "◿2",
    "⬚0↙5", "⬚⌞0↙5", "⬚⌟0↙5", "⬚0↙¯5", "⬚⌞0↙¯5", "⬚0↯7", "⬚⌞0↯7", "⬚0↯[3 3]", "⬚⌞0↯[3 3]", "⬚0↯[2 2 2]", "⬚0↻2", "⬚0⊡7", "⬚0⊏[0 9]",
    "≡(⬚0↙4)", "≡(⬚⌞0↙4)", "≡(⬚⌞0↯5)", "⍚(⬚⌞0↙4)", "⬚⌞0↙4⊢", "⬚⌞0↙4⊣", "⬚⌞0↙4↘1", "⬚⌞0↯5↘1", "⬚⌞0↯5⊣", "⬚⌞0↙6♭↘1", "⊜□⊸≠0", "⊕□⊸⊛", "⧈+", "⧈□2", "∊⊸⇌", "⊗⊸⇌", "⍣(⊢)0", "°⊚⊚",
    // pervasive maths whose byte and float kernels are different functions
    "ₑ", "ₑ₂", "ₑ₁₀", "°ₑ", "°ₑ₂", "°ₑ₁₀", "√₃", "ⁿ2", "ⁿ0.5", "˜ⁿ2", "˜ⁿ10", "˜ⁿ3.25", "°√", "°∿", "∠1", "˜∠1", "⁅₂", "÷3", "˜÷3", "˜◿7", "˜-1", "⌵¯", "×0.1", "⍜+(×2)1",
];

const DYADIC: &[&str] = &[
    "+", "-", "×", "÷", "◿", "ⁿ", "↥", "↧", "=", "≠", "<", "≤", ">", "≥", "∠", "⊂", "⊟", "⊏", "⊡", "↯", "↙", "↘", "↻", "▽", "∊", "⊗", "⌕", "⦷", "≍", "⊞+", "⊞=", "⊞↥", "≡⊂", "≡+",
    "⬚0+", "⬚⌞0+", "⬚0⊂", "⬚⌞0⊂", "⬚0⊟", "⬚⌞0⊟", "⬚0↙", "⬚⌞0↙", "⬚0↯", "⬚⌞0↯", "⬚0⊏", "⬚0▽", "˜⊂", "˜-", "⊃+×", "⊙◌", "◌", "⍜⊏(×2)", "⍜↙⇌", "⍜⊡(+1)", "⊕/+", "⊜/+", "/+×", "∊⊙⍆", "⊗⊙⍆", "∊⍆", "⊗⍆",
];

fn gen_num_base(r: &mut Rng, rank_max: usize, small_ints: bool) -> Value {
    let rank = r.below(rank_max + 1);
    let shape: Vec<usize> = (0..rank).map(|_| if r.chance(1, 10) { 0 } else { 1 + r.below(4) }).collect();
    let n: usize = shape.iter().product();
    let mode = r.below(6);
    let mut d: Vec<f64> = (0..n)
        .map(|_| match mode {
            0 => r.below(2) as f64,
            1 | 2 => r.below(5) as f64,
            // large values only in tiny arrays: they also serve as shapes / counts
            3 => if n <= 1 { r.below(256) as f64 } else { r.below(12) as f64 },
            4 if !small_ints => *r.pick(&[0.5, -1.0, 2.0, 300.0, 11.0, 256.0, -0.0, 3.25]),
            _ => r.below(4) as f64,
        })
        .collect();
    if r.chance(1, 3) && rank >= 1 {
        // sort rows so that truthful marks exist
        let rc = shape[0];
        if rc > 0 {
            let rl = n / rc;
            let mut rows: Vec<Vec<f64>> = (0..rc).map(|i| d[i * rl..(i + 1) * rl].to_vec()).collect();
            rows.sort_by(|a, b| a.partial_cmp(b).unwrap());
            if r.chance(1, 3) {
                rows.reverse();
            }
            d = rows.concat();
        }
    }
    num(&shape, &d)
}

/// pass a value through uiua so that it carries the marks uiua itself produces
fn natural_marks(r: &mut Rng, v: Value) -> Value {
    let prog = *r.pick(&["∘", "⍆", "⇌⍆", "∘", "⊏⊸⍏"]);
    let (up, down) = truthful(&v);
    match prog {
        "⍆" | "⊏⊸⍏" if up => run_uiua_with(prog, &[v.clone()]).ok().and_then(|mut s| s.pop()).unwrap_or(v),
        "⇌⍆" if down && !up => run_uiua_with(prog, &[v.clone()]).ok().and_then(|mut s| s.pop()).filter(|w| *w == v).unwrap_or(v),
        _ => v,
    }
}

/// sided fills are behind `# Experimental!`
fn prog_src(p: &str) -> String {
    if p.contains('⌞') || p.contains('⌟') { format!("# Experimental!\n{p}") } else { p.to_string() }
}

/// like `run_uiua_with`, but the arguments are MOVED onto the stack, so that a uniquely owned
/// buffer stays uniquely owned
fn run_owned(src: &str, args: Vec<Value>) -> Result<Vec<Value>, String> {
    let mut env = uiua::Uiua::with_safe_sys().with_execution_limit(std::time::Duration::from_secs(5));
    for a in args {
        env.push(a);
    }
    match catch(|| env.run_str(src).map(|_| ()).map_err(|e| e.to_string())) {
        Ok(Ok(())) => Ok(env.take_stack()),
        Ok(Err(e)) => Err(e),
        Err(p) => Err(format!("PANIC: {p}")),
    }
}

struct Search {
    evals: usize,
    cases: usize,
    errors: usize,
    viol: usize,
    by_prog: std::collections::BTreeMap<String, usize>,
}

/// run one catalogue entry on all variant combinations of the given base arguments
fn differential(s: &mut Search, prog: &str, bases: &[Value]) {
    let vars = Variant::all();
    let mut combos: Vec<Vec<Variant>> = vec![vec![]];
    for _ in bases {
        let mut next = Vec::new();
        for c in &combos {
            for v in &vars {
                let mut c2 = c.clone();
                c2.push(*v);
                next.push(c2);
            }
        }
        combos = next;
    }
    let origs: Vec<(Vec<f64>, Vec<usize>)> = bases.iter().map(|b| (f64_data(b), b.shape.iter().copied().collect())).collect();
    let mut reference: Option<(Vec<Variant>, Outcome)> = None;
    let mut reported = std::collections::BTreeSet::new();
    s.cases += 1;
    for combo in combos {
        let mut args = Vec::new();
        let mut keepers = Vec::new();
        let mut ok = true;
        for (b, v) in bases.iter().zip(&combo) {
            match make_variant(b, *v) {
                Some((a, k)) => {
                    if let Err(e) = verif::check_value(&a) {
                        println!("{{\"harness_error\":{}}}", jstr(&format!("variant {} of {} is not well formed: {e}", v.show(), show_val(b))));
                        ok = false;
                    }
                    args.push(a);
                    keepers.push(k);
                }
                None => ok = false,
            }
        }
        if !ok {
            continue;
        }
        s.evals += 1;
        let out = match run_owned(&prog_src(prog), args) {
            Ok(st) => Outcome::Ok(st),
            Err(e) => {
                s.errors += 1;
                Outcome::Err(e)
            }
        };
        // retained duplicates unchanged
        for (ai, k) in keepers.iter().enumerate() {
            if let Err(e) = keeper_intact(k, &origs[ai].0, &origs[ai].1) {
                let key = format!("aliasing:{prog}");
                if reported.insert(key.clone()) {
                    s.viol += 1;
                    println!(
                        "{{\"violation\":\"aliasing\",\"prog\":{},\"args\":[{}],\"variants\":[{}],\"detail\":{}}}",
                        jstr(prog),
                        bases.iter().map(|b| jstr(&show_val(b))).collect::<Vec<_>>().join(","),
                        combo.iter().map(|v| jstr(&v.show())).collect::<Vec<_>>().join(","),
                        jstr(&e)
                    );
                }
            }
        }
        drop(keepers);
        match &reference {
            None => reference = Some((combo.clone(), out)),
            Some((rc, ro)) => {
                if let Err(what) = outcome_eq(ro, &out) {
                    // which storage dimensions differ from the reference
                    let mut dims = Vec::new();
                    for (a, b) in rc.iter().zip(&combo) {
                        if a.byte != b.byte {
                            dims.push("type")
                        }
                        if a.marks != b.marks {
                            dims.push("marks")
                        }
                        if a.own != b.own {
                            dims.push("own")
                        }
                    }
                    dims.sort();
                    dims.dedup();
                    // report the difference with the fewest differing dimensions per program
                    let key = format!("{prog}:{what}");
                    if reported.insert(key) {
                        s.viol += 1;
                        *s.by_prog.entry(prog.to_string()).or_default() += 1;
                        println!(
                            "{{\"violation\":\"storage\",\"prog\":{},\"what\":{},\"dims\":{},\"args\":[{}],\"variants_a\":[{}],\"variants_b\":[{}],\"result_a\":{},\"result_b\":{}}}",
                            jstr(prog),
                            jstr(&what),
                            jstr(&dims.join("+")),
                            bases.iter().map(|b| jstr(&show_val(b))).collect::<Vec<_>>().join(","),
                            rc.iter().map(|v| jstr(&v.show())).collect::<Vec<_>>().join(","),
                            combo.iter().map(|v| jstr(&v.show())).collect::<Vec<_>>().join(","),
                            jstr(&show_outcome(ro)),
                            jstr(&show_outcome(&out))
                        );
                    }
                }
            }
        }
    }
}

fn fixed_bases() -> Vec<Value> {
    vec![
        num(&[3], &[1., 2., 3.]),
        num(&[3], &[3., 1., 2.]),
        num(&[3], &[3., 2., 1.]),
        num(&[2, 2], &[1., 2., 3., 4.]),
        num(&[2, 3], &[0., 1., 1., 0., 2., 5.]),
        num(&[0], &[]),
        num(&[], &[2.]),
        num(&[4], &[0., 1., 1., 0.]),
        num(&[2, 0], &[]),
        num(&[], &[3.25]),
        num(&[], &[224.]),
    ]
}

/// boundary values of the storage types: extremes and the middle of the byte range (with repeats),
/// and for floats the same numbers plus signed zeros, huge, subnormal and just-outside-byte values
const BYTE_EDGES: [f64; 6] = [0., 1., 127., 128., 254., 255.];
const FLOAT_EDGES: [f64; 12] = [-0.0, 0.0, 0.5, 255.5, 256., -1., 1e300, -1e300, 5e-324, 2.2250738585072014e-308, f64::MAX, 254.99999999999997];

fn boundary_bases() -> Vec<Value> {
    let big = 1e300;
    let sub = 5e-324;
    vec![
        // byte-storable lists: the maximum not already in place, repeats, both ends
        num(&[4], &[255., 1., 7., 200.]),
        num(&[4], &[200., 1., 7., 255.]),
        num(&[6], &[0., 255., 255., 0., 1., 254.]),
        num(&[4], &[127., 128., 127., 128.]),
        num(&[6], &[254., 255., 0., 1., 127., 128.]),
        num(&[3], &[255., 255., 255.]),
        num(&[1], &[255.]),
        num(&[], &[255.]),
        // byte-storable matrices (per-row kernels) and a rank-3 array
        num(&[3, 3], &[255., 3., 9., 4., 255., 255., 0., 2., 1.]),
        num(&[2, 2], &[128., 127., 255., 0.]),
        num(&[2, 4], &[255., 0., 254., 1., 1., 254., 0., 255.]),
        num(&[2, 2, 2], &[255., 0., 1., 254., 128., 127., 255., 255.]),
        // float-only: the same numbers with signed zeros, huge, subnormal, just outside the byte range
        num(&[6], &[255., -0.0, big, 0., sub, 1.]),
        num(&[5], &[256., 255.5, 255., -1., 0.5]),
        num(&[4], &[-big, big, f64::MAX, 2.2250738585072014e-308]),
        num(&[4], &[0., -0.0, -0.0, 0.]),
        num(&[2, 3], &[255., sub, -0.0, big, 0., 128.]),
    ]
}

/// a random array over the boundary alphabet (repeats are likely); `floats` adds the float-only edges
fn gen_boundary_base(r: &mut Rng, floats: bool) -> Value {
    let shape: Vec<usize> = match r.below(6) {
        0 | 1 | 2 => vec![1 + r.below(6)],
        3 | 4 => vec![2 + r.below(2), 2 + r.below(3)],
        _ => vec![2, 2, 2],
    };
    let n: usize = shape.iter().product();
    let d: Vec<f64> = (0..n)
        .map(|_| {
            if floats && r.chance(1, 3) {
                *r.pick(&FLOAT_EDGES)
            } else if r.chance(1, 6) {
                r.below(256) as f64
            } else {
                *r.pick(&BYTE_EDGES)
            }
        })
        .collect();
    num(&shape, &d)
}

/// catalogue entries whose top-of-stack argument is a shape / count: no large values there
fn top_is_size(prog: &str) -> bool {
    prog.contains('↯') || prog.contains('▽') || prog.contains('↙') || prog.contains('⊚') || prog.contains('⇡')
}

fn search(n: usize, seed: u64) {
    let mut r = Rng::new(seed ^ 0xC06);
    let mut s = Search { evals: 0, cases: 0, errors: 0, viol: 0, by_prog: Default::default() };
    // monadic: every catalogue entry on the fixed bases and on n random bases
    for prog in MONADIC {
        for b in fixed_bases() {
            differential(&mut s, prog, &[b]);
        }
        for _ in 0..n {
            let b = gen_num_base(&mut r, 3, false);
            let b = natural_marks(&mut r, b);
            differential(&mut s, prog, &[b]);
        }
        // boundary values of the byte and float ranges, in lists and matrices
        for b in boundary_bases() {
            let b = natural_marks(&mut r, b);
            differential(&mut s, prog, &[b]);
        }
        for k in 0..n {
            let b = gen_boundary_base(&mut r, k % 3 == 2);
            let b = natural_marks(&mut r, b);
            differential(&mut s, prog, &[b]);
        }
    }
    // directed: operations with mark-dependent shortcuts on arrays whose rows are sorted
    // ascending / descending (rank 1-3, so that row order says nothing about later columns)
    const MARK_SENSITIVE: &[&str] = &[
        "/↥", "/↧", "\\↥", "\\↧", "≡/↥", "≡/↧", "≡\\↥", "≡\\↧", "/+", "\\+", "⍆", "⍏", "⍖", "⊢⍆", "⊣⍆", "⇌⍆", "◴", "⊛", "⊚=1", "∊⊸⇌", "⊗⊸⇌", "⊢", "⊣", "⊢⇌", "/↥♭", "/↧♭", "⍉",
    ];
    for prog in MARK_SENSITIVE {
        for rank in 1..=3usize {
            for down in [false, true] {
                for it in 0..(n / 4 + 2).max(10) {
                    // inner axes of length >= 2 mostly (a single column is monotone whenever the rows are)
                    let shape: Vec<usize> = (0..rank).map(|i| if i == 0 { 2 + r.below(3) } else if it % 4 == 3 { 1 + r.below(3) } else { 2 + r.below(2) }).collect();
                    let cnt: usize = shape.iter().product();
                    let rc = shape[0];
                    let rl = cnt / rc;
                    // two samples in three hold small integers only (so that the byte variants exist),
                    // with a small leading column so that ties are broken by later columns
                    let ints = it % 3 != 2;
                    let mut rows: Vec<Vec<f64>> = (0..rc)
                        .map(|_| {
                            (0..rl)
                                .map(|c| {
                                    if !ints && r.chance(1, 4) {
                                        r.below(4) as f64 + 0.5
                                    } else if c == 0 {
                                        r.below(3) as f64
                                    } else {
                                        r.below(6) as f64
                                    }
                                })
                                .collect()
                        })
                        .collect();
                    rows.sort_by(|a, b| a.partial_cmp(b).unwrap());
                    if down {
                        rows.reverse();
                    }
                    let b = num(&shape, &rows.concat());
                    let b = natural_marks(&mut r, b);
                    differential(&mut s, prog, &[b]);
                }
            }
        }
    }
    // dyadic: fixed pairs and n/2+1 random pairs (all 18 x 18 variant pairs each)
    let fb = fixed_bases();
    for prog in DYADIC {
        for (i, j) in [(0usize, 1usize), (3, 0), (6, 4), (7, 7), (0, 0), (9, 10)] {
            differential(&mut s, prog, &[fb[i].clone(), fb[j].clone()]);
        }
        // boundary values: always in the deeper argument, and on top unless that is a size
        let bb = boundary_bases();
        for (k, (i, j)) in [(0usize, 1usize), (8, 4), (12, 13)].into_iter().enumerate() {
            let a = bb[i].clone();
            let b = if top_is_size(prog) { fb[[1usize, 6, 0][k]].clone() } else { bb[j].clone() };
            differential(&mut s, prog, &[a, b]);
        }
        for k in 0..(n / 3 + 1) {
            let a = gen_boundary_base(&mut r, k % 2 == 1);
            let b = if top_is_size(prog) { gen_num_base(&mut r, 1, true) } else { gen_boundary_base(&mut r, k % 4 == 3) };
            differential(&mut s, prog, &[natural_marks(&mut r, a), natural_marks(&mut r, b)]);
        }
        for _ in 0..(n / 3 + 1) {
            let a = gen_num_base(&mut r, 2, false);
            let a = natural_marks(&mut r, a);
            // the second argument (top of stack) is often a small index-like value
            let b = if r.chance(1, 2) { gen_num_base(&mut r, 1, true) } else { gen_num_base(&mut r, 2, false) };
            let b = natural_marks(&mut r, b);
            differential(&mut s, prog, &[a, b]);
        }
    }
    println!(
        "{{\"evaluations\":{},\"cases\":{},\"errors\":{},\"violations\":{},\"monadic\":{},\"dyadic\":{}}}",
        s.evals,
        s.cases,
        s.errors,
        s.viol,
        MONADIC.len(),
        DYADIC.len()
    );
}

// ------------------------------------------------------------------ directed: left fill through programs

fn leftfill() {
    // programs in which a value with a hidden prefix in its buffer meets a left-sided fill;
    // each is compared with the same program on a right-normalised formulation computed from
    // independent data (expected value written out)
    let progs: &[(&str, &str, &str)] = &[
        // (regression key, program, program computing the expected value)
        // defect repaired by 1c88250: a uniquely owned window with a hidden prefix and a left fill
        ("cow-left-fill-hidden-prefix", "⬚⌞5↙3 ↘3 ⇡4", "[5 5 3]"),
        ("cow-left-fill-hidden-prefix", "⬚⌞0↙4 ↘2 +0.5⇡4", "[0 0 2.5 3.5]"),
        ("cow-left-fill-hidden-prefix", "⬚⌞0↙4 ↘1 +1⇡3", "[0 0 2 3]"),
        ("cow-left-fill-hidden-prefix", "⬚⌞0↯4 ↘2 ⇡4", "[0_0 0_0 0_0 2_3]"),
        ("cow-left-fill-hidden-prefix", "⬚⌞0↯2_3 ↘2 ⇡4", "[0_0_0 0_2_3]"),
        ("cow-left-fill-hidden-prefix", "⬚⌞0↙3_2 ↘1 +1°△2_2", "[0_0 0_0 3_4]"),
        // defect repaired by 73cdc70: sorted-mark shortcut of min/max reduction below depth 0
        ("reduce-minmax-sorted-depth", "≡/↥ [1 2 3]", "[1 2 3]"),
        ("reduce-minmax-sorted-depth", "≡/↧ ⇡3", "[0 1 2]"),
        ("reduce-minmax-sorted-depth", "≡/↥ ⍆[3 1 2]", "[1 2 3]"),
        ("reduce-minmax-sorted-depth", "≡≡/↧ [3 2 1]", "[3 2 1]"),
        // defect repaired by 4d6dac8: shortcut on a sorted list without comparable element
        ("reduce-min-sorted-empty", "/↧ ↘1 [1.5]", "/↧ []"),
        ("reduce-min-sorted-empty", "/↧ ▽0 [1.5]", "∞"),
        ("reduce-min-sorted-empty", "/↥ ↘1 [1.5]", "¯∞"),
        ("reduce-min-sorted-empty", "/↧ ⍆[NaN NaN]", "/↧ [NaN NaN]"),
        ("reduce-min-sorted-empty", "/↥ ⍆[NaN NaN]", "/↥ [NaN NaN]"),
        // defect repaired by 1ed6a20: byte arm with an empty inner axis
        ("reduce-minmax-byte-empty-rows", "≡/↥ ≡(↘2) [1_2 3_4]", "≡/↥ ≡(↘2) [1.5_2 3_4]"),
        ("reduce-minmax-byte-empty-rows", "≡/↧ ≡(↘2) [1_2 3_4]", "[∞ ∞]"),
        ("reduce-minmax-byte-empty-rows", "≡/↥ ↙2_0 [1_2 3_4]", "[¯∞ ¯∞]"),
        ("reduce-minmax-byte-empty-rows", "≡/× ≡(↘2) =1[1_0 0_1]", "[1 1]"),
        // defect repaired by ae88f5d: integer exponent stored as byte used powi, as float powf
        ("pow-byte-exponent-powi", "ⁿ 224 3.25", "ⁿ ÷2 448 3.25"),
        // defect repaired by f49674d: 10^n of a byte used powi, of a float powf (1 ulp apart for most n >= 23)
        ("exp10-byte-powi", "ₑ₁₀ 23", "ₑ₁₀ ÷2 46"),
        ("exp10-byte-powi", "ₑ₁₀ ⇡31", "ₑ₁₀ ÷2×2⇡31"),
        // controls: the same operations on shared or full buffers, and right fills
        ("control", "⬚⌞0↙4 ↘1 [1 2 3]", "[0 0 2 3]"),
        ("control", "⬚0↙4 ↘2 +0.5⇡4", "[2.5 3.5 0 0]"),
        ("control", "⬚⌟0↙4 ↘2 +0.5⇡4", "[2.5 3.5 0 0]"),
        ("control", "⬚⌞0↙4 +0.5⇡2", "[0 0 0.5 1.5]"),
        ("control", "≡(⬚⌞0↙3) [1_2 3_4]", "[0_1_2 0_3_4]"),
        ("control", "⬚⌞0↯3_2 ↘1 [1_2 3_4]", "[0_0 0_0 3_4]"),
        ("control", "⬚0↙¯5 [1 2 3]", "[0 0 1 2 3]"),
        ("control", "≡/↥ [3 1 2]", "[3 1 2]"),
        ("control", "/↧ []", "∞"),
        // not a storage matter, recorded as a side observation: negative take with a left fill
        ("neg-take", "⬚⌞0↙¯5 [1 2 3]", "[0 0 1 2 3]"),
    ];
    for (class, p, want) in progs {
        let got = run_uiua(&prog_src(p));
        let exp = run_uiua(want);
        let same = match (&got, &exp) {
            (Ok(a), Ok(b)) => a == b,
            _ => false,
        };
        println!(
            "{{\"leftfill\":{},\"class\":{},\"want\":{},\"got\":{},\"same\":{}}}",
            jstr(p),
            jstr(class),
            jstr(want),
            jstr(&match &got {
                Ok(st) => st.iter().map(|v| format!("{v:?}")).collect::<Vec<_>>().join(" | "),
                Err(e) => format!("ERR {}", e.lines().next().unwrap_or("")),
            }),
            same
        );
    }
}

/// tie of the small reduce model: byte lists with truthful / cleared marks, /↧ and /↥
fn reduce_tie(n: usize, seed: u64) {
    let mut r = Rng::new(seed ^ 0x4ed);
    let ext = |v: &Value| -> String {
        let d = f64_data(v);
        if d.len() != 1 || v.rank() != 0 {
            return format!("(Fin 999999) (* unexpected {v:?} *)");
        }
        if d[0] == f64::INFINITY {
            "PosInf".into()
        } else if d[0] == f64::NEG_INFINITY {
            "NegInf".into()
        } else {
            format!("(Fin {})", d[0] as u64)
        }
    };
    for k in 0..n {
        let len = if k < 4 { k } else { r.below(7) };
        let mut d: Vec<u8> = (0..len).map(|_| if r.chance(1, 2) { r.below(4) as u8 } else { r.below(256) as u8 }).collect();
        match r.below(4) {
            0 => d.sort(),
            1 => {
                d.sort();
                d.reverse()
            }
            _ => {}
        }
        let base = byte(&[len], &d);
        let (tu, td) = truthful(&base);
        // marks: truthful ones, or a truthful subset
        let (up, down) = match r.below(4) {
            0 => (false, false),
            1 => (tu, false),
            2 => (false, td),
            _ => (tu, td),
        };
        let mut v = base.clone();
        verif::clear_flags(&mut v);
        verif::set_sorted(&mut v, up, down);
        let mn = run_owned("/↧", vec![v.clone()]);
        let mx = run_owned("/↥", vec![v]);
        if let (Ok(a), Ok(b)) = (mn, mx) {
            println!(
                "{{\"rc\":{},\"show\":{}}}",
                jstr(&format!("RC {up} {down} {} {} {}", coq_n_list(d.iter().map(|x| *x as u64)), ext(&a[0]), ext(&b[0]))),
                jstr(&format!("{d:?} up={up} down={down} min={:?} max={:?}", a[0], b[0]))
            );
        }
    }
}

fn main() {
    let mode = std::env::args().nth(1).unwrap_or_default();
    let n: usize = std::env::args().nth(2).and_then(|s| s.parse().ok()).unwrap_or(20);
    match mode.as_str() {
        "tie" => tie(n, seed_from_env()),
        "search" => search(n, seed_from_env()),
        "programs" => leftfill(),
        "reduce" => reduce_tie(n, seed_from_env()),
        _ => eprintln!("usage: c06 tie|search|programs N"),
    }
}
