//! C04: under restores what it took apart.
//!   c04 dump            -> catalogue with the (before, after) templates (debug)
//!   c04 export          -> JSON lines: for every catalogue F and g-signature |1.1 |2.1 |1.2 |2.2 the
//!                          real `Node::under_inverse(g_sig, false)` halves as spine `node`s
//!   c04 search N        -> ⍜F∘ x = x, the index-array oracle for ⍜F G, residue after success and
//!                          after a caught failure injected at every position
use std::fmt::Write as _;
use uiua::{Node, Signature, Value};
use uvh::*;

// ---------------------------------------------------------------- catalogue

#[derive(Clone, Copy, PartialEq)]
pub enum Kind {
    /// selects positions of its last argument: the index-array oracle applies
    Positional,
    /// the selected part depends on the values (sort, classify, where ...): identity law and residue only
    ByValue,
    /// map operations
    Map,
}

#[derive(Clone)]
pub struct F {
    pub name: String,
    pub src: String,
    /// arguments F takes (the array is the last one) and values it hands to G
    pub args: usize,
    pub outs: usize,
    pub kind: Kind,
    /// minimum rank of the array argument ("arrays that actually have the axes")
    pub min_rank: usize,
    /// the array argument must have at least this many rows
    pub min_rows: usize,
}

fn f(name: &str, src: &str, args: usize, outs: usize, kind: Kind, min_rank: usize, min_rows: usize) -> F {
    F { name: name.into(), src: src.into(), args, outs, kind, min_rank, min_rows }
}

pub fn base() -> Vec<F> {
    use Kind::*;
    vec![
        f("first", "⊢", 1, 1, Positional, 1, 1),
        f("last", "⊣", 1, 1, Positional, 1, 1),
        f("reverse", "⇌", 1, 1, Positional, 1, 0),
        f("transpose", "⍉", 1, 1, Positional, 2, 0),
        f("deshape", "♭", 1, 1, Positional, 1, 0),
        f("fix", "¤", 1, 1, Positional, 0, 0),
        f("take2", "↙2", 1, 1, Positional, 1, 2),
        f("take-1", "↙¯1", 1, 1, Positional, 1, 1),
        f("drop1", "↘1", 1, 1, Positional, 1, 1),
        f("drop-1", "↘¯1", 1, 1, Positional, 1, 1),
        f("select1", "⊏1", 1, 1, Positional, 1, 2),
        f("select02", "⊏[0 2]", 1, 1, Positional, 1, 3),
        f("select-1", "⊏¯1", 1, 1, Positional, 1, 1),
        f("pick1", "⊡1", 1, 1, Positional, 1, 2),
        f("pick01", "⊡[0 1]", 1, 1, Positional, 2, 2),
        f("keep101", "▽[1 0 1]", 1, 1, Positional, 1, 3),
        f("rotate1", "↻1", 1, 1, Positional, 1, 0),
        f("rotate-2", "↻¯2", 1, 1, Positional, 1, 0),
        f("rerank1", "☇1", 1, 1, Positional, 2, 0),
        f("reshape", "↯[∞ 2]", 1, 1, Positional, 1, 2),
        f("take", "↙", 2, 1, Positional, 1, 2),
        f("drop", "↘", 2, 1, Positional, 1, 2),
        f("select", "⊏", 2, 1, Positional, 1, 2),
        f("pick", "⊡", 2, 1, Positional, 1, 2),
        f("rotate", "↻", 2, 1, Positional, 1, 0),
        f("sort", "⍆", 1, 1, ByValue, 1, 0),
        f("rise", "⍏", 1, 1, ByValue, 1, 0),
        f("fall", "⍖", 1, 1, ByValue, 1, 0),
        f("classify", "⊛", 1, 1, ByValue, 1, 0),
        f("deduplicate", "◴", 1, 1, ByValue, 1, 0),
        f("where", "⊚", 1, 1, ByValue, 1, 0),
        f("get", "get 2", 1, 1, Map, 0, 0),
        f("remove", "remove 2", 1, 1, Map, 0, 0),
        f("insert", "insert 7 8", 1, 1, Map, 0, 0),
        // the key exists (maps of the generator have keys 1..n): the undo must restore the old entry
        f("insert-existing", "insert 2 8", 1, 1, Map, 0, 0),
        // subscripted rows: the undo must give every row back its own context (cc8ac7d)
        f("rows1-first", "≡₁⊢", 1, 1, Positional, 2, 1),
        f("rows1-reverse", "≡₁⇌", 1, 1, Positional, 2, 1),
        f("rows2-first", "≡₂⊢", 1, 1, Positional, 3, 1),
        f("partition-box", "⊜□", 2, 1, ByValue, 1, 1),
        f("group-box", "⊕□", 2, 1, ByValue, 1, 1),
    ]
}

/// rows/each/both/bracket/dip/on/fork of the monadic positional selectors
pub fn combined(r: &mut Rng, n: usize) -> Vec<F> {
    // (subscripted rows are catalogue entries of their own: inside a sequence the rank bookkeeping below does not cover them)
    let b: Vec<F> = base().into_iter().filter(|x| x.args == 1 && x.kind == Kind::Positional && !x.name.starts_with("rows")).collect();
    let mut out = Vec::new();
    for x in &b {
        if x.min_rank >= 1 {
            out.push(F { name: format!("rows({})", x.name), src: format!("≡({})", x.src), min_rank: x.min_rank + 1, min_rows: x.min_rows.max(1), ..x.clone() });
        }
        out.push(F { name: format!("dip({})", x.name), src: format!("⊙({})", x.src), args: 2, outs: 2, ..x.clone() });
        out.push(F { name: format!("both({})", x.name), src: format!("∩({})", x.src), args: 2, outs: 2, ..x.clone() });
        out.push(F { name: format!("on({})", x.name), src: format!("⟜({})", x.src), args: 1, outs: 2, ..x.clone() });
    }
    for _ in 0..n {
        let x = r.pick(&b).clone();
        let y = r.pick(&b).clone();
        let mr = x.min_rank.max(y.min_rank);
        let mw = x.min_rows.max(y.min_rows);
        match r.below(3) {
            0 => out.push(F { name: format!("fork({},{})", x.name, y.name), src: format!("⊃({})({})", x.src, y.src), args: 1, outs: 2, kind: Kind::Positional, min_rank: mr, min_rows: mw }),
            1 => out.push(F { name: format!("bracket({},{})", x.name, y.name), src: format!("⊓({})({})", x.src, y.src), args: 2, outs: 2, kind: Kind::Positional, min_rank: mr, min_rows: mw }),
            _ => out.push(F { name: format!("seq({},{})", x.name, y.name), src: format!("({}) ({})", y.src, x.src), args: 1, outs: 1, kind: Kind::Positional, min_rank: mr + 1, min_rows: mw.max(3) }),
        }
    }
    out
}

pub fn fresh_thread<R: Send + 'static>(f: impl FnOnce() -> R + Send + 'static) -> R {
    std::thread::Builder::new().stack_size(64 << 20).spawn(f).unwrap().join().unwrap()
}

fn sigs(n: &Node) -> String {
    match catch(|| n.sig()) {
        Ok(Ok(s)) => jstr(&coq_sig(s)),
        _ => "null".into(),
    }
}

/// the operand node as the compiler hands it to under_inverse: taken from a compiled `⍜(F)(G)`
/// is not possible (the operand is not kept), so compile F alone
fn compile_f(src: &str) -> Result<(uiua::Assembly, Node), String> {
    let asm = compile(&format!("# Experimental!\n{src}\n"), uiua::PreEvalMode::Lazy)?;
    let n = asm.root.clone();
    Ok((asm, n))
}

const GS: [(usize, usize, &str); 4] = [(1, 1, "¯"), (2, 1, "+"), (1, 2, "⊃¯∘"), (2, 2, "⊓¯∘")];

fn export(fs: &[F]) {
    for x in fs {
        let x = x.clone();
        let lines = fresh_thread(move || {
            let mut lines = Vec::new();
            let (asm, node) = match compile_f(&x.src) {
                Ok(v) => v,
                Err(e) => {
                    lines.push(format!("{{\"f\":{},\"compile_error\":{}}}", jstr(&x.name), jstr(&e)));
                    return lines;
                }
            };
            for (ga, go, gsrc) in GS {
                let gsig = Signature::new(ga, go);
                match catch(|| node.under_inverse(gsig, false, &asm)) {
                    Ok(Ok((b, a))) => {
                        let mut ex = Export::new();
                        let (bs, as_) = (ex.node(&b), ex.node(&a));
                        // what the compiler assembles for ⍜F G with a G of that signature
                        let whole = compile(&format!("# Experimental!\n⍜({})({gsrc})\n", x.src), uiua::PreEvalMode::Lazy).ok().and_then(|asm2| match asm2.root.as_slice() {
                            [Node::CustomInverse(c, _)] => c.normal.as_ref().ok().map(|sn| {
                                let mut ex2 = Export::new();
                                (ex2.node(&sn.node), asm2.functions.len())
                            }),
                            _ => None,
                        });
                        let g_node = compile(&format!("# Experimental!\n{gsrc}\n"), uiua::PreEvalMode::Lazy).ok().map(|a| {
                            let mut ex3 = Export::new();
                            ex3.node(&a.root)
                        });
                        let mut s = format!(
                            "{{\"f\":{},\"src\":{},\"g_sig\":\"{ga}.{go}\",\"before\":{},\"after\":{},\"before_sig\":{},\"after_sig\":{},\"calls\":{},\"opaque\":{}",
                            jstr(&x.name), jstr(&x.src), jstr(&bs), jstr(&as_), sigs(&b), sigs(&a), ex.kinds.get("Call").copied().unwrap_or(0), ex.opaque
                        );
                        if let (Some((w, _)), Some(g)) = (whole, g_node) {
                            let _ = write!(s, ",\"whole\":{},\"g\":{}", jstr(&w), jstr(&g));
                        }
                        s.push('}');
                        lines.push(s);
                    }
                    Ok(Err(e)) => lines.push(format!("{{\"f\":{},\"g_sig\":\"{ga}.{go}\",\"no_under\":{}}}", jstr(&x.name), jstr(&e.to_string()))),
                    Err(p) => lines.push(format!("{{\"f\":{},\"g_sig\":\"{ga}.{go}\",\"panic\":{}}}", jstr(&x.name), jstr(&p))),
                }
            }
            lines
        });
        for l in lines {
            println!("{l}");
        }
    }
}

// ---------------------------------------------------------------- search

pub fn gshape(r: &mut Rng, min_rank: usize, min_rows: usize) -> Vec<usize> {
    let rank = (min_rank + r.below(3)).min(3).max(min_rank);
    let mut sh: Vec<usize> = (0..rank).map(|_| 2 + r.below(3)).collect();
    if let Some(d) = sh.first_mut() {
        *d = (*d).max(min_rows);
    }
    sh
}

pub fn gv(r: &mut Rng, kind: usize, shape: &[usize]) -> Value {
    let n = shape_len(shape);
    match kind {
        0 => num(shape, &(0..n).map(|_| r.range(-9, 60) as f64).collect::<Vec<_>>()),
        1 => byte(shape, &(0..n).map(|_| r.below(7) as u8).collect::<Vec<_>>()),
        2 => chars(shape, &(0..n).map(|_| *r.pick(&['a', 'b', 'z', ' ', 'é', 'λ'])).collect::<Vec<_>>()),
        3 => cplx(shape, &(0..n).map(|_| uiua::Complex::new(r.range(-3, 4) as f64, r.range(-2, 3) as f64)).collect::<Vec<_>>()),
        _ => boxes(shape, (0..n).map(|_| { let k = r.below(3); let sh: Vec<usize> = (0..r.below(2)).map(|_| 1 + r.below(3)).collect(); gv(r, k, &sh) }).collect()),
    }
}

pub fn show(vs: &[Value]) -> String {
    let mut s = String::new();
    for (i, v) in vs.iter().enumerate() {
        if i > 0 {
            s.push_str(" | ");
        }
        let _ = write!(s, "{:?}:{}", v.shape.iter().collect::<Vec<_>>(), v.show().replace('\n', "⏎"));
    }
    s
}

fn same(a: &[Value], b: &[Value]) -> bool {
    a.len() == b.len() && a.iter().zip(b).all(|(x, y)| x == y && x.shape == y.shape)
}

/// run and report the hidden-stack depths afterwards; Err carries the depths too
fn run_depths(src: &str, args: &[Value]) -> (Result<Vec<Value>, String>, [usize; 8], usize) {
    let mut env = uiua::Uiua::with_safe_sys().with_execution_limit(std::time::Duration::from_secs(5));
    for a in args {
        env.push(a.clone());
    }
    let r = catch(|| env.run_str(src).map(|_| ()).map_err(|e| e.to_string()));
    let d = uiua::verif::depths(&env);
    let (st, un) = env.take_stacks();
    match r {
        Ok(Ok(())) => (Ok(st), d, un.len()),
        Ok(Err(e)) => (Err(e), d, un.len()),
        Err(p) => (Err(format!("PANIC: {p}")), d, un.len()),
    }
}

fn residue(d: &[usize; 8], un: usize) -> Option<String> {
    if d[1] != 0 || un != 0 || d[5] != 0 || d[6] != 0 || d[7] != 0 {
        Some(format!("depths [stack,under,call,local,recur,fill,unfill,fillboundary] = {d:?}, under values {un}"))
    } else {
        None
    }
}

fn viol(law: &str, f: &F, src: &str, input: &[Value], detail: &str) {
    println!(
        "{{\"violation\":{},\"f\":{},\"src\":{},\"input\":{},\"detail\":{}}}",
        jstr(law), jstr(&f.name), jstr(src), jstr(&show(input)), jstr(detail)
    );
}

#[derive(Default, Clone)]
struct Stats {
    evals: usize,
    ident_checked: usize,
    oracle_checked: usize,
    oracle_skipped: usize,
    residue_ok_checked: usize,
    residue_err_checked: usize,
    inject_points: usize,
    outside: usize,
    compile_fail: usize,
    by_kind: [usize; 5],
    by_rank: [usize; 4],
}

/// index arguments (in range) for the dyadic selectors
fn index_arg(r: &mut Rng, name: &str, x: &Value) -> Value {
    let n = x.row_count() as i64;
    match name {
        "take" | "drop" => Value::from(r.range(-n, n) as f64),
        "select" => {
            if r.chance(1, 2) {
                Value::from(r.range(-n, n - 1) as f64)
            } else {
                // distinct indices
                let mut idx: Vec<i64> = (0..n).collect();
                for i in (1..idx.len()).rev() {
                    let j = r.below(i + 1);
                    idx.swap(i, j);
                }
                idx.truncate(1 + r.below(n as usize));
                num(&[idx.len()], &idx.iter().map(|i| *i as f64).collect::<Vec<_>>())
            }
        }
        "pick" => {
            if x.rank() >= 2 && r.chance(1, 2) {
                let m = x.shape[1] as i64;
                num(&[2], &[r.range(0, n - 1) as f64, r.range(0, m - 1) as f64])
            } else {
                Value::from(r.range(-n, n - 1) as f64)
            }
        }
        _ => Value::from(r.range(-5, 5) as f64),
    }
}

fn gen_input(r: &mut Rng, x: &F, kind: usize) -> Vec<Value> {
    // bottom first; the last pushed is the top of the stack = F's first argument
    match x.kind {
        Kind::Map => {
            let n = 1 + r.below(4);
            let keys: Vec<f64> = (0..n).map(|i| (i + 1) as f64).collect(); // 1..n: key 2 present when n >= 2
            let vals = gv(r, 0, &[n]);
            let m = run_uiua_with("map", &[vals, num(&[n], &keys)]).ok().and_then(|mut s| s.pop());
            vec![m.unwrap_or_else(|| Value::from(0.0))]
        }
        _ if x.name.ends_with("-box") => {
            let n = 2 + r.below(4);
            let arr = gv(r, kind.min(3), &[n]);
            let marks: Vec<f64> = (0..n).map(|_| r.range(0, 2) as f64).collect();
            vec![arr, num(&[n], &marks)]
        }
        _ => {
            let sh = gshape(r, x.min_rank, x.min_rows);
            let arr = gv(r, kind, &sh);
            if x.src.starts_with('⊙') || x.src.starts_with('∩') || x.src.starts_with('⊓') {
                let sh2 = gshape(r, x.min_rank, x.min_rows);
                let arr2 = gv(r, kind, &sh2);
                vec![arr2, arr]
            } else if x.args == 2 {
                let i = index_arg(r, &x.name, &arr);
                vec![arr, i]
            } else {
                vec![arr]
            }
        }
    }
}

/// numeric arrays whose elements are their own flat positions, shaped like the given ones
fn index_like(vs: &[Value], from: usize) -> Vec<Value> {
    let mut base = from;
    vs.iter()
        .map(|v| {
            let n = v.shape.elements();
            let d: Vec<f64> = (0..n).map(|i| (base + i) as f64).collect();
            base += n;
            num(&v.shape.iter().copied().collect::<Vec<_>>(), &d)
        })
        .collect()
}

fn flat(v: &Value) -> Option<Vec<f64>> {
    match v {
        Value::Num(a) => Some(a.elements().copied().collect()),
        Value::Byte(a) => Some(a.elements().map(|b| *b as f64).collect()),
        _ => None,
    }
}

fn search_one(x: &F, seed: u64, per: usize) -> Stats {
    let x = x.clone();
    fresh_thread(move || {
        let mut st = Stats::default();
        let mut r = Rng::new(seed);
        let ident = format!("⍜({})({})", x.src, if x.outs == 2 { "⊙∘" } else { "∘" });
        if compile(&format!("# Experimental!\n{ident}\n"), uiua::PreEvalMode::Lazy).is_err() {
            st.compile_fail += 1;
            return st;
        }
        // G: elementwise, shape-preserving, with a position where a failure can be injected
        let g_parts: Vec<&str> = if x.outs == 2 { vec!["∩(+100)", "∩(×2)", "∩¯"] } else { vec!["+100", "×2", "¯"] };
        let g_ok = g_parts.iter().rev().cloned().collect::<Vec<_>>().join(" ");
        for _ in 0..per {
            let kind = *r.pick(&[0usize, 0, 0, 1, 2, 3, 4]);
            let input = gen_input(&mut r, &x, kind);
            st.evals += 1;
            // F must apply ("arrays that actually have the axes, boxes or keys F acts on")
            let fx = match run_uiua_with(&x.src, &input) {
                Ok(v) => v,
                Err(_) => {
                    st.outside += 1;
                    continue;
                }
            };
            let arr_i = if x.args == 2 && !(x.src.starts_with('⊙') || x.src.starts_with('∩') || x.src.starts_with('⊓')) { 0 } else { input.len() - 1 };
            st.by_kind[kind.min(4)] += 1;
            st.by_rank[input[arr_i].rank().min(3)] += 1;
            // expected results of ⍜F∘: the arguments F does not consume stay as they are
            let is_on = x.name.starts_with("on(");
            let expect_ident: Vec<Value> = if is_on {
                vec![input[0].clone(), input[0].clone()] // ⟜F keeps a copy of x beside F x
            } else if x.args == 2 && arr_i == 0 {
                vec![input[0].clone()]
            } else {
                input.clone()
            };
            // (1) ⍜F∘ x = x, no residue
            let (res, d, un) = run_depths(&ident, &input);
            match res {
                Ok(out) => {
                    st.ident_checked += 1;
                    if !same(&out, &expect_ident) {
                        viol("get-put", &x, &ident, &input, &format!("⍜F∘ x = {} but x = {}", show(&out), show(&expect_ident)));
                    }
                    st.residue_ok_checked += 1;
                    if let Some(e) = residue(&d, un) {
                        viol("residue-ok", &x, &ident, &input, &e);
                    }
                }
                Err(e) if e.contains("Cannot unreshape") => {
                    // a reshape that drops or repeats elements selects no part of x: outside the law
                    st.outside += 1;
                    continue;
                }
                Err(e) => viol("get-put", &x, &ident, &input, &format!("⍜F∘ fails where F succeeds (F x = {}): {e}", show(&fx))),
            }
            // (2) the index-array oracle
            let numeric = input.iter().all(|v| matches!(v, Value::Num(_) | Value::Byte(_)));
            if x.kind == Kind::Positional && numeric && !is_on {
                let mut idx_in = input.clone();
                if x.args == 2 && arr_i == 0 {
                    idx_in[0] = index_like(&input[..1], 0).pop().unwrap();
                } else {
                    idx_in = index_like(&input, 0);
                }
                let usrc = format!("⍜({})({})", x.src, g_ok);
                let sel = run_uiua_with(&x.src, &idx_in);
                let gy = run_uiua_with(&format!("{} {}", g_ok, x.src), &input);
                let (actual, d, un) = run_depths(&usrc, &input);
                match (sel, gy, actual) {
                    (Ok(sel), Ok(gy), Ok(actual)) => {
                        // expected: the originals with position p_j replaced by (G (F x))_j
                        let arrays: Vec<&Value> = if x.args == 2 && arr_i == 0 { vec![&input[0]] } else { input.iter().collect() };
                        let mut flat_all: Vec<f64> = Vec::new();
                        for a in &arrays {
                            flat_all.extend(flat(a).unwrap_or_default());
                        }
                        let mut ok = true;
                        let mut written = vec![false; flat_all.len()];
                        for (s, g) in sel.iter().zip(&gy) {
                            let (Some(ps), Some(gs)) = (flat(s), flat(g)) else { ok = false; break };
                            if ps.len() != gs.len() {
                                ok = false;
                                break;
                            }
                            for (p, v) in ps.iter().zip(&gs) {
                                let p = *p as usize;
                                if p >= flat_all.len() || (written[p] && flat_all[p] != *v) {
                                    ok = false;
                                    break;
                                }
                                flat_all[p] = *v;
                                written[p] = true;
                            }
                        }
                        if !ok {
                            st.oracle_skipped += 1;
                        } else {
                            let mut expect = Vec::new();
                            let mut off = 0;
                            for a in &arrays {
                                let n = a.shape.elements();
                                expect.push(num(&a.shape.iter().copied().collect::<Vec<_>>(), &flat_all[off..off + n]));
                                off += n;
                            }
                            st.oracle_checked += 1;
                            if !same(&actual, &expect) {
                                viol("put-get", &x, &usrc, &input, &format!("⍜F G x = {} but x with the selected positions {} replaced by G(F x) = {} is {}", show(&actual), show(&sel), show(&gy), show(&expect)));
                            }
                        }
                        st.residue_ok_checked += 1;
                        if let Some(e) = residue(&d, un) {
                            viol("residue-ok", &x, &usrc, &input, &e);
                        }
                    }
                    (_, _, Err(e)) => viol("put-get", &x, &usrc, &input, &format!("⍜F G fails for a shape-preserving G: {e}")),
                    _ => st.oracle_skipped += 1,
                }
            }
            // (3) a failure injected into G at every position, caught by a handler: the handler sees the
            //     original arguments, nothing is left in the context, and an under run afterwards works
            let nin = input.len();
            // index taken from the stack (⍜↙G n x is 2 -> 1): the handler drops the index and hands x back
            let dyadic_sel = x.args == 2 && arr_i == 0;
            let handler = if is_on { "." } else if dyadic_sel { "◌" } else { match nin { 1 => "∘", 2 => "⊙∘", _ => "⊙⊙∘" } };
            let mut injected: Vec<String> = Vec::new();
            for j in 0..=g_parts.len() {
                let mut parts: Vec<&str> = g_parts.clone();
                parts.insert(j, "⍤\"boom\"0");
                injected.push(parts.iter().rev().cloned().collect::<Vec<_>>().join(" "));
            }
            // G that changes the shape so that the undo step itself fails
            injected.push(if x.outs == 2 { "∩(⊂0♭)".to_string() } else { "⊂0♭".to_string() });
            for g in &injected {
                for wrap in 0..3 {
                    let inner = format!("⍣(⍜({})({g}))({handler})", x.src);
                    let prog = match wrap {
                        0 => format!("⍜⊢(+1) [5 6] {inner}"),
                        1 => format!("⍜⊢(+1) [5 6] ⬚0({inner})"),
                        _ => format!("⍜⊢(+1) [5 6] ⍜⊢({inner})"),
                    };
                    // wrap 2: the whole thing inside another under, on the first row of a fixed array
                    let args: Vec<Value> = if wrap == 2 {
                        if nin != 1 || x.kind == Kind::Map || is_on { continue }
                        let Ok(mut v) = run_uiua_with("¤", &input) else { continue };
                        vec![v.pop().unwrap()]
                    } else {
                        input.clone()
                    };
                    st.inject_points += 1;
                    let (res, d, un) = run_depths(&prog, &args);
                    match res {
                        Ok(out) => {
                            st.residue_err_checked += 1;
                            let mut expect: Vec<Value> = if dyadic_sel { args[..1].to_vec() } else { args.clone() };
                            if is_on {
                                expect.push(args[0].clone());
                            }
                            if g.contains("⊂0♭") {
                                // the undo may legitimately succeed for some F (then the result is not the input)
                                expect = out[..out.len() - 1].to_vec();
                            }
                            expect.push(num(&[2], &[6.0, 6.0]));
                            if !same(&out, &expect) {
                                viol("handler-state", &x, &prog, &args, &format!("after a caught failure the stack is {} instead of {}", show(&out), show(&expect)));
                            }
                            if let Some(e) = residue(&d, un) {
                                viol("residue-err", &x, &prog, &args, &e);
                            }
                        }
                        Err(e) => {
                            if e.contains("boom") || e.starts_with("PANIC") {
                                viol("handler-state", &x, &prog, &args, &format!("the failure escaped the handler: {e}"));
                            } else if g.contains("boom") {
                                // F applies to the input and the handler hands the arguments back: nothing may fail
                                // (e.g. an enclosing under popping a context value the failed one left behind)
                                viol("handler-state", &x, &prog, &args, &format!("after the injected failure was caught the program fails: {e}"));
                            }
                            // a shape-changing G may legitimately make an enclosing undo fail
                        }
                    }
                }
            }
        }
        st
    })
}

fn main() {
    let mode = std::env::args().nth(1).unwrap_or_default();
    let n: usize = std::env::args().nth(2).and_then(|s| s.parse().ok()).unwrap_or(200);
    let mut r = Rng::new(seed_from_env());
    let mut fs = base();
    fs.extend(combined(&mut r, 40));
    match mode.as_str() {
        "dump" => {
            for x in &fs {
                let x = x.clone();
                fresh_thread(move || match compile_f(&x.src) {
                    Ok((asm, node)) => {
                        println!("{}  {}  F = {:?}", x.name, x.src, node);
                        for (ga, go, _) in GS {
                            match node.under_inverse(Signature::new(ga, go), false, &asm) {
                                Ok((b, a)) => println!("   |{ga}.{go}  before = {:?} {:?}\n          after  = {:?} {:?}", b, b.sig().ok(), a, a.sig().ok()),
                                Err(e) => println!("   |{ga}.{go}  {e}"),
                            }
                        }
                    }
                    Err(e) => println!("{} {}: compile error {e}", x.name, x.src),
                });
            }
        }
        "export" => {
            export(&fs);
            println!("{{\"summary\":true,\"catalogue\":{}}}", fs.len());
        }
        "search" => {
            // regression inputs of repaired defects (37254dd switch selector under an under-condition,
            // e20bf71 undo keep / a8d90c3 undo select on rows without elements): must succeed, leave no residue
            let mp = "map [1 2 3] [4 5 6]";
            let progs: Vec<(String, Option<&str>)> = vec![
                ("⍜(⨬(×2)(+1))(×10) [] []".into(), Some("[0]:[]")),
                ("⍜(▽1_1_7)⇌↯2_0_2 0".into(), None),
                ("⬚0⍜(⊏¯4)⇌↯3_0 0".into(), None),
                ("⍜(⨬(×2)(+1))(×10) 1 5".into(), Some("[]:59")),
                // round 5: cc8ac7d undo of subscripted rows, 28948e4 restoring an entry whose key is present,
                // ee5bf28 undo keep with the rank raised by two
                ("≍ [[[0 1][60 7]][[20 3][80 9]][[40 5][100 11]]] ⍉ ⍜≡₁⊢(×10) ↯2_3_2⇡12".into(), None),
                ("≍ ↯2_3_2[0 1 20 3 40 5 60 7 80 9 100 11] ⍜≡₁⊢(×10) ↯2_3_2⇡12".into(), Some("[]:1")),
                (format!("≍ {mp} ⍜insert∘ 1 10 {mp}"), Some("[]:1")),
                (format!("≍ {mp} ⍜(insert 1)∘ 10 {mp}"), Some("[]:1")),
                (format!("≍ {mp} ⍜(insert 7 10)∘ {mp}"), Some("[]:1")),
                (format!("≍ {mp} ⍜(remove 2)∘ {mp}"), Some("[]:1")),
                (format!("≍ map [1 2 3] [4 6 6] ⍜(get 2)(+1) {mp}"), Some("[]:1")),
                ("≍ ↯2_2_3[1 2 3] ⍜(▽[1 0 1])(↯2_2_2) [1 2 3]".into(), Some("[]:1")),
                (format!("≍ {mp} ⍜(▽[1 0 1])∘ {mp}"), Some("[]:1")),
                (format!("≍ {mp} ⍜(⇌)∘ {mp}"), Some("[]:1")),
                (format!("≍ {mp} ⍜(⊏[0 2])∘ {mp}"), Some("[]:1")),
                (format!("≍ {mp} ⍜(↻1)∘ {mp}"), Some("[]:1")),
                // round 6: fcc33ba under of insert with two constants, c5eaaf2 under of on with reverse / transpose
                (format!("≍ {mp} ⍜(insert 1 10)∘ {mp}"), Some("[]:1")),
                (format!("≍ map [1 2 3] [4 6 7] ⍜(insert 1 10)(+1) {mp}"), Some("[]:1")),
                ("⍜(⟜⇌)(⊙∘) [1 2 3]".into(), Some("[3]:[1 2 3] | [3]:[1 2 3]")),
                ("⍜(⟜⍉)(⊙∘) [1_2 3_4]".into(), None),
                ("⍜(⟜⇌)(∩(+1)) [1 2 3]".into(), Some("[3]:[2 3 4] | [3]:[2 3 4]")),
            ];
            for (src, want) in progs {
                let src = src.as_str();
                let (res, d, un) = run_depths(&format!("# Experimental!\n{src}"), &[]);
                let f0 = &fs[0];
                match res {
                    Ok(out) => {
                        if let Some(w) = want {
                            if show(&out) != w {
                                viol("regression", f0, src, &[], &format!("expected {w}, got {}", show(&out)));
                            }
                        }
                        for v in &out {
                            if let Err(e) = uiua::verif::check_value(v) {
                                viol("regression", f0, src, &[], &format!("the result is not a well-formed value: {e}"));
                            }
                        }
                        if let Some(e) = residue(&d, un) {
                            viol("residue-ok", f0, src, &[], &e);
                        }
                    }
                    Err(e) => viol("regression", f0, src, &[], &format!("a repaired program fails again: {e}")),
                }
            }
            let per = (n / fs.len()).max(2);
            let mut tot = Stats::default();
            for x in &fs {
                let st = search_one(x, r.next(), per);
                tot.evals += st.evals;
                tot.ident_checked += st.ident_checked;
                tot.oracle_checked += st.oracle_checked;
                tot.oracle_skipped += st.oracle_skipped;
                tot.residue_ok_checked += st.residue_ok_checked;
                tot.residue_err_checked += st.residue_err_checked;
                tot.inject_points += st.inject_points;
                tot.outside += st.outside;
                tot.compile_fail += st.compile_fail;
                for i in 0..5 {
                    tot.by_kind[i] += st.by_kind[i];
                }
                for i in 0..4 {
                    tot.by_rank[i] += st.by_rank[i];
                }
            }
            println!(
                "{{\"summary\":true,\"catalogue\":{},\"evaluations\":{},\"identity_checked\":{},\"oracle_checked\":{},\"oracle_skipped\":{},\"residue_after_success_checked\":{},\"residue_after_caught_failure_checked\":{},\"failure_injection_runs\":{},\"outside_domain_skipped\":{},\"no_under_for_term\":{},\"arrays_by_kind_num_byte_char_complex_box\":{:?},\"arrays_by_rank\":{:?}}}",
                fs.len(), tot.evals, tot.ident_checked, tot.oracle_checked, tot.oracle_skipped, tot.residue_ok_checked, tot.residue_err_checked,
                tot.inject_points, tot.outside, tot.compile_fail, tot.by_kind, tot.by_rank
            );
        }
        _ => eprintln!("usage: c04 dump|export|search N"),
    }
}
