//! Shared pieces of the verification harness: PRNG, value generators,
//! printers of uiua values as Gallina terms, a recording hasher, JSON helpers.
#![allow(clippy::all)]

use std::fmt::Write as _;
use std::hash::Hasher;

use uiua::{Array, Boxed, Complex, Value};

// ---------------------------------------------------------------- PRNG

/// SplitMix64: every random choice of a run derives from one seed
#[derive(Clone)]
pub struct Rng(pub u64);

impl Rng {
    pub fn new(seed: u64) -> Self {
        Rng(seed.wrapping_mul(0x9E3779B97F4A7C15) ^ 0xD1B54A32D192ED03)
    }
    pub fn next(&mut self) -> u64 {
        self.0 = self.0.wrapping_add(0x9E3779B97F4A7C15);
        let mut z = self.0;
        z = (z ^ (z >> 30)).wrapping_mul(0xBF58476D1CE4E5B9);
        z = (z ^ (z >> 27)).wrapping_mul(0x94D049BB133111EB);
        z ^ (z >> 31)
    }
    pub fn below(&mut self, n: usize) -> usize {
        if n == 0 { 0 } else { (self.next() % n as u64) as usize }
    }
    pub fn range(&mut self, lo: i64, hi: i64) -> i64 {
        lo + (self.next() % ((hi - lo + 1) as u64)) as i64
    }
    pub fn chance(&mut self, num: usize, den: usize) -> bool {
        self.below(den) < num
    }
    pub fn pick<'a, T>(&mut self, xs: &'a [T]) -> &'a T {
        &xs[self.below(xs.len())]
    }
    pub fn fork(&mut self) -> Rng {
        Rng(self.next())
    }
}

pub fn seed_from_env() -> u64 {
    std::env::var("VERIF_SEED").ok().and_then(|s| s.parse().ok()).unwrap_or(1)
}

pub fn arg_usize(name: &str, default: usize) -> usize {
    let mut it = std::env::args();
    while let Some(a) = it.next() {
        if a == name {
            return it.next().and_then(|s| s.parse().ok()).unwrap_or(default);
        }
    }
    default
}

pub fn arg_str(name: &str) -> Option<String> {
    let mut it = std::env::args();
    while let Some(a) = it.next() {
        if a == name {
            return it.next();
        }
    }
    None
}

// ---------------------------------------------------------------- value construction

pub fn num(shape: &[usize], data: &[f64]) -> Value {
    Value::Num(Array::new(shape, data))
}
pub fn byte(shape: &[usize], data: &[u8]) -> Value {
    Value::Byte(Array::new(shape, data))
}
pub fn chars(shape: &[usize], data: &[char]) -> Value {
    Value::Char(Array::new(shape, data))
}
pub fn cplx(shape: &[usize], data: &[Complex]) -> Value {
    Value::Complex(Array::new(shape, data))
}
pub fn boxes(shape: &[usize], data: Vec<Value>) -> Value {
    let d: Vec<Boxed> = data.into_iter().map(Boxed).collect();
    Value::Box(Array::new(shape, d.as_slice()))
}

pub const SPECIAL_FLOATS: [f64; 14] = [
    0.0,
    -0.0,
    1.0,
    -1.0,
    2.0,
    0.5,
    -2.5,
    255.0,
    256.0,
    1e300,
    f64::INFINITY,
    f64::NEG_INFINITY,
    f64::NAN,
    4503599627370497.0,
];

/// Which element types a generator may use
#[derive(Clone, Copy)]
pub struct GenCfg {
    pub max_rank: usize,
    pub max_dim: usize,
    pub box_depth: usize,
    pub nan: bool,
    pub nonint: bool,
    pub complex: bool,
    pub chars: bool,
    pub boxes: bool,
    pub small_alphabet: bool,
}

impl Default for GenCfg {
    fn default() -> Self {
        GenCfg {
            max_rank: 3,
            max_dim: 3,
            box_depth: 2,
            nan: true,
            nonint: true,
            complex: true,
            chars: true,
            boxes: true,
            small_alphabet: true,
        }
    }
}

pub fn gen_shape(r: &mut Rng, cfg: &GenCfg) -> Vec<usize> {
    let rank = r.below(cfg.max_rank + 1);
    (0..rank)
        .map(|_| {
            if r.chance(1, 8) { 0 } else { 1 + r.below(cfg.max_dim) }
        })
        .collect()
}

pub fn shape_len(shape: &[usize]) -> usize {
    shape.iter().product()
}

pub fn gen_f64(r: &mut Rng, cfg: &GenCfg) -> f64 {
    loop {
        let x = if cfg.small_alphabet && r.chance(3, 4) {
            r.range(0, 3) as f64
        } else if r.chance(1, 2) {
            *r.pick(&SPECIAL_FLOATS)
        } else {
            r.range(-5, 300) as f64
        };
        if !cfg.nan && x.is_nan() {
            continue;
        }
        if !cfg.nonint && x.fract() != 0.0 {
            continue;
        }
        return x;
    }
}

pub fn gen_char(r: &mut Rng, cfg: &GenCfg) -> char {
    if cfg.small_alphabet && r.chance(3, 4) {
        *r.pick(&['a', 'b', 'c', 'A'])
    } else {
        *r.pick(&['a', 'z', ' ', '0', '\n', 'é', 'λ', '→', '𝄞', '\u{301}', '\0', '@', '"', '\\'])
    }
}

pub fn gen_value_shaped(r: &mut Rng, cfg: &GenCfg, shape: &[usize], depth: usize) -> Value {
    let n = shape_len(shape);
    let mut kinds = vec![0usize, 0, 1]; // num, num, byte
    if cfg.chars {
        kinds.push(2);
    }
    if cfg.complex {
        kinds.push(3);
    }
    if cfg.boxes && depth < cfg.box_depth {
        kinds.push(4);
        kinds.push(4);
    }
    match *r.pick(&kinds) {
        0 => {
            let d: Vec<f64> = (0..n).map(|_| gen_f64(r, cfg)).collect();
            num(shape, &d)
        }
        1 => {
            let d: Vec<u8> = (0..n)
                .map(|_| if r.chance(3, 4) { r.below(4) as u8 } else { r.below(256) as u8 })
                .collect();
            byte(shape, &d)
        }
        2 => {
            let d: Vec<char> = (0..n).map(|_| gen_char(r, cfg)).collect();
            chars(shape, &d)
        }
        3 => {
            let d: Vec<Complex> = (0..n)
                .map(|_| Complex::new(gen_f64(r, cfg), gen_f64(r, cfg)))
                .collect();
            cplx(shape, &d)
        }
        _ => {
            let d: Vec<Value> = (0..n).map(|_| gen_value(r, cfg, depth + 1)).collect();
            boxes(shape, d)
        }
    }
}

pub fn gen_value(r: &mut Rng, cfg: &GenCfg, depth: usize) -> Value {
    let shape = gen_shape(r, cfg);
    gen_value_shaped(r, cfg, &shape, depth)
}

/// A variant of a value: same data reshaped, a prefix, one element changed, other storage
pub fn mutate_value(r: &mut Rng, cfg: &GenCfg, v: &Value) -> Value {
    match r.below(6) {
        0 => v.clone(),
        1 => {
            // same data, different shape with equal product
            let n = v.shape.elements();
            let mut shapes: Vec<Vec<usize>> = vec![vec![n]];
            for a in 1..=n {
                if n % a == 0 {
                    shapes.push(vec![a, n / a]);
                    shapes.push(vec![1, a, n / a]);
                }
            }
            if n == 1 {
                shapes.push(vec![]);
            }
            let sh = r.pick(&shapes).clone();
            let mut w = v.clone();
            w.shape = sh.as_slice().into();
            w
        }
        2 => uiua::verif::to_num_storage(v),
        3 => uiua::verif::to_byte_storage(v).unwrap_or_else(|| v.clone()),
        4 => {
            // take a prefix of rows / extend with one row
            if v.rank() == 0 || v.row_count() == 0 {
                return gen_value(r, cfg, 0);
            }
            let k = r.below(v.row_count() + 1);
            let rows: Vec<Value> = v.rows().take(k).collect();
            if rows.is_empty() {
                gen_value(r, cfg, 0)
            } else {
                Value::from_row_values_infallible(rows)
            }
        }
        _ => gen_value(r, cfg, 0),
    }
}

// ---------------------------------------------------------------- Gallina printers

pub fn coq_nat_list(xs: &[usize]) -> String {
    let mut s = String::from("[");
    for (i, x) in xs.iter().enumerate() {
        if i > 0 {
            s.push(';');
        }
        write!(s, "{x}").unwrap();
    }
    s.push_str("]%nat");
    s
}

pub fn coq_n_list<I: IntoIterator<Item = u64>>(xs: I) -> String {
    let mut s = String::from("[");
    for (i, x) in xs.into_iter().enumerate() {
        if i > 0 {
            s.push(';');
        }
        write!(s, "{x}").unwrap();
    }
    s.push_str("]%N");
    s
}

/// A uiua value as a term of type `value` (coq/Base/Value.v)
pub fn coq_value(v: &Value) -> String {
    let sh = coq_nat_list(&v.shape.iter().copied().collect::<Vec<_>>());
    match v {
        Value::Num(a) => format!("(VNum {sh} {})", coq_n_list(a.elements().map(|x| x.to_bits()))),
        Value::Byte(a) => format!("(VByte {sh} {})", coq_n_list(a.elements().map(|x| *x as u64))),
        Value::Char(a) => format!("(VChar {sh} {})", coq_n_list(a.elements().map(|x| *x as u64))),
        Value::Complex(a) => {
            let mut s = String::from("[");
            for (i, c) in a.elements().enumerate() {
                if i > 0 {
                    s.push(';');
                }
                write!(s, "({},{})", c.re.to_bits(), c.im.to_bits()).unwrap();
            }
            s.push_str("]%N");
            format!("(VCplx {sh} {s})")
        }
        Value::Box(a) => {
            let mut s = String::from("[");
            for (i, b) in a.elements().enumerate() {
                if i > 0 {
                    s.push(';');
                }
                s.push_str(&coq_value(&b.0));
            }
            s.push(']');
            format!("(VBox {sh} {s})")
        }
    }
}

// ---------------------------------------------------------------- recording hasher

/// Records what is fed to a hasher as (width in bits, value) writes
#[derive(Default)]
pub struct RecHasher(pub Vec<(u32, u64)>);

impl Hasher for RecHasher {
    fn finish(&self) -> u64 {
        0
    }
    fn write(&mut self, bytes: &[u8]) {
        for b in bytes {
            self.0.push((1, *b as u64));
        }
    }
    fn write_u8(&mut self, i: u8) {
        self.0.push((8, i as u64));
    }
    fn write_u16(&mut self, i: u16) {
        self.0.push((16, i as u64));
    }
    fn write_u32(&mut self, i: u32) {
        self.0.push((32, i as u64));
    }
    fn write_u64(&mut self, i: u64) {
        self.0.push((64, i));
    }
    fn write_usize(&mut self, i: usize) {
        self.0.push((65, i as u64));
    }
}

pub fn coq_pairs(xs: &[(u32, u64)]) -> String {
    let mut s = String::from("[");
    for (i, (a, b)) in xs.iter().enumerate() {
        if i > 0 {
            s.push(';');
        }
        write!(s, "({a},{b})").unwrap();
    }
    s.push_str("]%N");
    s
}

// ---------------------------------------------------------------- JSON helpers

pub fn jstr(s: &str) -> String {
    serde_json::to_string(s).unwrap()
}

/// Run a closure, turning a panic into Err(message)
pub fn catch<T>(f: impl FnOnce() -> T) -> Result<T, String> {
    let prev = std::panic::take_hook();
    std::panic::set_hook(Box::new(|_| {}));
    let r = std::panic::catch_unwind(std::panic::AssertUnwindSafe(f));
    std::panic::set_hook(prev);
    r.map_err(|e| {
        if let Some(s) = e.downcast_ref::<String>() {
            s.clone()
        } else if let Some(s) = e.downcast_ref::<&str>() {
            s.to_string()
        } else {
            "panic".to_string()
        }
    })
}

/// Run a uiua program with the safe backend and an execution limit; returns the stack (bottom first)
pub fn run_uiua(src: &str) -> Result<Vec<Value>, String> {
    let mut env = uiua::Uiua::with_safe_sys().with_execution_limit(std::time::Duration::from_secs(5));
    match catch(|| env.run_str(src).map(|_| ()).map_err(|e| e.to_string())) {
        Ok(Ok(())) => Ok(env.take_stack()),
        Ok(Err(e)) => Err(e),
        Err(p) => Err(format!("PANIC: {p}")),
    }
}

/// Run a program with values pushed beforehand (last pushed = top of stack)
pub fn run_uiua_with(src: &str, args: &[Value]) -> Result<Vec<Value>, String> {
    let mut env = uiua::Uiua::with_safe_sys().with_execution_limit(std::time::Duration::from_secs(5));
    for a in args {
        env.push(a.clone());
    }
    match catch(|| env.run_str(src).map(|_| ()).map_err(|e| e.to_string())) {
        Ok(Ok(())) => Ok(env.take_stack()),
        Ok(Err(e)) => Err(e),
        Err(p) => Err(format!("PANIC: {p}")),
    }
}

// ---------------------------------------------------------------- IR exporter (spine)

use uiua::{Assembly, ImplPrimitive, Node, Primitive, SigNode, Signature};

pub fn coq_sig(s: Signature) -> String {
    format!("(Sig {} {} {} {})", s.args(), s.outputs(), s.under_args(), s.under_outputs())
}

/// ids of the primitives that the spine model interprets on integers (coq/Model/Exec.v zsem)
pub fn prim_id(p: Primitive) -> u64 {
    use Primitive::*;
    match p {
        Identity => 1,
        Dup => 2,
        Flip => 3,
        Pop => 4,
        Add => 5,
        Sub => 6,
        Mul => 7,
        Neg => 8,
        Eq => 9,
        Lt => 10,
        Gt => 11,
        Assert => 12,
        Not => 13,
        Max => 14,
        Min => 15,
        Ne => 16,
        Le => 17,
        Ge => 18,
        Abs => 19,
        Sign => 20,
        p => 1000 + Primitive::all().position(|q| q == p).unwrap_or(9999) as u64,
    }
}

fn str_id(s: &str) -> u64 {
    // FNV-1a, folded to 40 bits (ids only need to be stable within a run)
    let mut h: u64 = 0xcbf29ce484222325;
    for b in s.bytes() {
        h ^= b as u64;
        h = h.wrapping_mul(0x100000001b3);
    }
    100000 + (h >> 24)
}

pub struct Export {
    pub opaque: usize,
    pub nodes: usize,
    pub kinds: std::collections::BTreeMap<String, usize>,
    /// when set, `CallGlobal` of a bound constant / function is exported as the `Push` / `Call`
    /// that the interpreter performs for it (run.rs exec_impl, CallGlobal arm)
    pub globals: Option<Assembly>,
}

impl Export {
    pub fn new() -> Self {
        Export { opaque: 0, nodes: 0, kinds: Default::default(), globals: None }
    }
    pub fn with_asm(asm: &Assembly) -> Self {
        Export { opaque: 0, nodes: 0, kinds: Default::default(), globals: Some(asm.clone()) }
    }
    fn kind(&mut self, k: &str) {
        *self.kinds.entry(k.to_string()).or_default() += 1;
        self.nodes += 1;
    }
    pub fn ops(&mut self, ops: &[SigNode]) -> String {
        let mut s = String::from("[");
        for (i, sn) in ops.iter().enumerate() {
            if i > 0 {
                s.push(';');
            }
            write!(s, "({},{})", coq_sig(sn.sig), self.node(&sn.node)).unwrap();
        }
        s.push(']');
        s
    }
    pub fn sval(&mut self, v: &Value) -> String {
        if v.rank() == 0 {
            let x = match v {
                Value::Num(a) => Some(a.elements().next().copied().unwrap_or(0.0)),
                Value::Byte(a) => Some(a.elements().next().copied().unwrap_or(0) as f64),
                _ => None,
            };
            if let Some(x) = x {
                if x.fract() == 0.0 && x.abs() < 1e15 {
                    return format!("(SInt ({})%Z)", x as i64);
                }
            }
        }
        format!("(SOpq {})", str_id(&format!("{v:?}{:?}", v.shape)))
    }
    pub fn modk(&mut self, p: &Primitive) -> String {
        use Primitive::*;
        match p {
            Dip => "MDip".into(),
            Gap => "MGap".into(),
            On => "MOn".into(),
            By => "MBy".into(),
            With => "MWith".into(),
            Off => "MOff".into(),
            Above => "MAbove".into(),
            Below => "MBelow".into(),
            Both => "MBoth".into(),
            Fork => "MFork".into(),
            Bracket => "MBracket".into(),
            Reach => "MReach".into(),
            Try => "MTry".into(),
            Pattern => "MPattern".into(),
            Case => "MCase".into(),
            Fill => "MFill".into(),
            Repeat => "MRepeat".into(),
            Do => "MDo".into(),
            Reduce => "MReduce".into(),
            Scan => "MScan".into(),
            Fold => "MFold".into(),
            Rows => "MRows".into(),
            Each => "MEach".into(),
            Inventory => "MInventory".into(),
            Table => "MTable".into(),
            Tuples => "MTuples".into(),
            Stencil => "MStencil".into(),
            Group => "MGroup".into(),
            Partition => "MPartition".into(),
            Content => "MContent".into(),
            Memo => "MMemo".into(),
            Comptime => "MComptime".into(),
            Un => "MUn".into(),
            Anti => "MAnti".into(),
            Spawn => "MSpawn".into(),
            Pool => "MPool".into(),
            Dump => "MDump".into(),
            Path | Recur | Sys(uiua::SysOp::ReadLines) | Sys(uiua::SysOp::AudioStream) => {
                self.opaque += 1;
                format!("(MOther {} None)", prim_id(*p))
            }
            p => {
                self.opaque += 1;
                let fixed = match p.sig() {
                    Some(s) if p.modifier_args().is_some() => format!("(Some {})", coq_sig(s)),
                    _ => "None".into(),
                };
                format!("(MOther {} {})", prim_id(*p), fixed)
            }
        }
    }
    pub fn implmodk(&mut self, p: &ImplPrimitive) -> String {
        use ImplPrimitive::*;
        match p {
            OnSub(n) => format!("(MOnSub {n})"),
            BySub(n) => format!("(MBySub {n})"),
            WithSub(n) => format!("(MWithSub {n})"),
            OffSub(n) => format!("(MOffSub {n})"),
            DipN(n) => format!("(MDipN {n})"),
            ReduceDepth(d) => format!("(MReduceDepth {d})"),
            ReduceContent => "MReduceContent".into(),
            UnFill => "MUnFill".into(),
            SidedFill(_) => "MSidedFill".into(),
            UndoRows => "MUndoRows".into(),
            UndoInventory => "MUndoInventory".into(),
            EachSub(_) => "MEachSub".into(),
            FixMatchRanks => "MFixMatchRanks".into(),
            UnBracket => "MUnBracket".into(),
            UnScan => "MUnScan".into(),
            RepeatWithInverse => "MRepeatWithInverse".into(),
            RepeatCountConvergence => "MRepeatCountConv".into(),
            TableSub(_) | SidedTuples(_) | ReduceConjoinInventory => "MHandleSig".into(),
            BothImpl(sub) | UnBothImpl(sub) => {
                let reused = sub.side.map(|side| side.n.unwrap_or(1)).unwrap_or(0);
                let n = sub.num.unwrap_or(2) as usize;
                if matches!(p, UnBothImpl(_)) {
                    format!("(MUnBothImpl {reused} {n})")
                } else {
                    format!("(MBothImpl {reused} {n})")
                }
            }
            // handled specially by the checker, not modelled: never give them a table signature
            Astar | AstarFirst | AstarSignLen | AstarTake | AstarPop | PathFirst | PathSignLen
            | PathTake | PathPop | FoldWhile | SidedStencil(_) | SidedBracket(_) | RowsSub(..)
            | UndoRowsSub(..) | SplitBy | SplitByScalar | SplitByKeepEmpty | FoldGif => {
                self.opaque += 1;
                format!("(MOther {} None)", str_id(&format!("{p:?}")))
            }
            p => {
                self.opaque += 1;
                let fixed = match (p.args(), p.outputs()) {
                    (Some(a), Some(o)) => format!("(Some (Sig {a} {o} 0 0))"),
                    _ => "None".into(),
                };
                format!("(MOther {} {})", str_id(&format!("{p:?}")), fixed)
            }
        }
    }
    pub fn node(&mut self, n: &Node) -> String {
        match n {
            Node::Push(v) => {
                self.kind("Push");
                format!("(Push {})", self.sval(v))
            }
            Node::Prim(p, _) => {
                self.kind("Prim");
                match (p.args(), p.outputs()) {
                    (Some(a), Some(o)) => format!("(Prim {} {a} {o})", prim_id(*p)),
                    _ => format!("(PrimIndet {})", prim_id(*p)),
                }
            }
            Node::ImplPrim(p, _) => {
                self.kind("ImplPrim");
                match (p.args(), p.outputs()) {
                    (Some(a), Some(o)) => format!("(Prim {} {a} {o})", str_id(&format!("{p:?}"))),
                    _ => format!("(PrimIndet {})", str_id(&format!("{p:?}"))),
                }
            }
            Node::Run(ns) => {
                self.kind("Run");
                let mut s = String::from("(Run [");
                for (i, x) in ns.iter().enumerate() {
                    if i > 0 {
                        s.push(';');
                    }
                    s.push_str(&self.node(x));
                }
                s.push_str("])");
                s
            }
            Node::Mod(p, args, _) => {
                self.kind(&format!("Mod:{p:?}"));
                let m = self.modk(p);
                format!("(Mod {m} {})", self.ops(args))
            }
            Node::ImplMod(p, args, _) => {
                self.kind(&format!("ImplMod:{}", format!("{p:?}").split('(').next().unwrap_or("")));
                let m = self.implmodk(p);
                format!("(Mod {m} {})", self.ops(args))
            }
            Node::Call(f, _) => {
                self.kind("Call");
                format!("(Call {} {})", uiua::verif::function_index(f), coq_sig(f.sig))
            }
            Node::CallGlobal(i, s) => {
                self.kind("CallGlobal");
                let resolved = self.globals.as_ref().and_then(|asm| asm.bindings.get(*i)).map(|b| b.kind.clone());
                match resolved {
                    Some(uiua::BindingKind::Const(Some(v))) => format!("(Push {})", self.sval(&v)),
                    Some(uiua::BindingKind::Func(f)) => {
                        format!("(Call {} {})", uiua::verif::function_index(&f), coq_sig(f.sig))
                    }
                    _ => format!("(CallGlobal {i} {})", coq_sig(*s)),
                }
            }
            Node::CallMacro { index, sig, .. } => {
                self.kind("CallMacro");
                format!("(CallMacro {index} {})", coq_sig(*sig))
            }
            Node::BindGlobal { .. } => {
                self.kind("BindGlobal");
                "BindGlobal".into()
            }
            Node::Array { len, inner, boxed, .. } => {
                self.kind("Array");
                format!("(Arr {len} {} {})", self.node(inner), boxed)
            }
            Node::Unpack { count, unbox, .. } => {
                self.kind("Unpack");
                format!("(Unpack {count} {unbox})")
            }
            Node::Switch { branches, sig, under_cond, .. } => {
                self.kind("Switch");
                format!("(Switch {} {} {under_cond})", self.ops(branches), coq_sig(*sig))
            }
            Node::PushUnder(n, _) => {
                self.kind("PushUnder");
                format!("(PushUnder {n})")
            }
            Node::CopyToUnder(n, _) => {
                self.kind("CopyToUnder");
                format!("(CopyToUnder {n})")
            }
            Node::PopUnder(n, _) => {
                self.kind("PopUnder");
                format!("(PopUnder {n})")
            }
            Node::NoInline(inner) => {
                self.kind("NoInline");
                format!("(NoInline {})", self.node(inner))
            }
            Node::TrackCaller(inner) => {
                self.kind("TrackCaller");
                format!("(TrackCaller {} {})", coq_sig(inner.sig), self.node(&inner.node))
            }
            Node::CustomInverse(cust, _) => {
                self.kind("CustomInverse");
                let s = match cust.sig() {
                    Ok(s) => format!("(Some {})", coq_sig(s)),
                    Err(_) => "None".into(),
                };
                match &cust.normal {
                    Ok(sn) => format!("(CustomInv {s} true {} {})", coq_sig(sn.sig), self.node(&sn.node)),
                    Err(_) => format!("(CustomInv {s} false (Sig 0 0 0 0) (Run []))"),
                }
            }
            Node::Label(..) => {
                self.kind("Label");
                "Label".into()
            }
            Node::RemoveLabel(..) => {
                self.kind("RemoveLabel");
                "RemoveLabel".into()
            }
            Node::Format(parts, _) => {
                self.kind("Format");
                format!("(Format {})", parts.len())
            }
            Node::MatchFormatPattern(parts, _) => {
                self.kind("MatchFormat");
                format!("(MatchFormat {})", parts.len())
            }
            Node::Dynamic(_) => {
                self.kind("Dynamic");
                format!("(Dynamic {})", coq_sig(n.sig().unwrap_or_default()))
            }
            Node::SetOutputComment { .. } => {
                self.kind("SetOutputComment");
                "SetOutputComment".into()
            }
        }
    }
}

/// Compile a source text (no pre-evaluation surprises: caller picks the mode)
pub fn compile(src: &str, mode: uiua::PreEvalMode) -> Result<Assembly, String> {
    let r = catch(|| {
        let mut c = uiua::Compiler::new();
        c.pre_eval_mode(mode);
        c.load_str(src).map(|c| c.finish()).map_err(|e| e.to_string())
    });
    match r {
        Ok(Ok(a)) => Ok(a),
        Ok(Err(e)) => Err(e),
        Err(p) => Err(format!("PANIC: {p}")),
    }
}

// ---------------------------------------------------------------- program generator (spine)

/// generator of integer-only programs over the modelled spine (execution order, then reversed)
pub struct PGen {
    pub fns: Vec<String>,
}

const MONADIC: [&str; 5] = ["¯", "¬", "⌵", "±", "∘"];
// "=" is left out: after a name it would be read as a binding arrow
const DYADIC: [&str; 10] = ["+", "-", "×", "<", ">", "≠", "≤", "≥", "↥", "↧"];

impl PGen {
    /// a function body as source text (right-to-left), roughly `len` items
    pub fn body(&mut self, r: &mut Rng, depth: usize, len: usize) -> String {
        let mut items: Vec<String> = Vec::new(); // in execution order
        for _ in 0..len {
            let k = r.below(100);
            let it = if k < 22 {
                format!("{}", r.range(0, 4))
            } else if k < 34 {
                r.pick(&MONADIC).to_string()
            } else if k < 52 {
                r.pick(&DYADIC).to_string()
            } else if k < 58 {
                r.pick(&[".", ":", "◌"]).to_string()
            } else if k < 62 {
                // assertion: fails unless the value under the message is 1
                "⍤\"x\"".to_string()
            } else if k < 66 && !self.fns.is_empty() {
                let i = r.below(self.fns.len());
                format!("F{}", (b'a' + i as u8) as char)
            } else if depth == 0 {
                format!("{}", r.range(0, 3))
            } else if k < 69 {
                // repeat with a literal or a run-time count (0 included)
                let l = 1 + r.below(2);
                let cnt = if r.chance(1, 2) { format!("{}", r.range(0, 3)) } else { "⌵".to_string() };
                format!("⍥({}) {cnt}", self.body(r, depth - 1, l))
            } else if k < 74 {
                // iteration over scalars: the operand runs once (rows, each, table) or not at all (reduce)
                if r.chance(1, 4) {
                    // do: the body undoes what the condition leaves; the counter grows up to a bound, so the
                    // loop ends; sometimes the body fails in some round
                    let kk = 2 + r.below(4);
                    let body = *r.pick(&["+1", "+2", "⊙(+1) +1", "+1 ⍤\"boom\" <4 .", "⊙(¯) +1"]);
                    format!("⍢({body}|<{kk})")
                } else {
                    let m = *r.pick(&["≡", "≡", "∵", "⊞", "/"]);
                    let l = 1 + r.below(3);
                    format!("{m}({})", self.body(r, depth - 1, l))
                }
            } else if k < 78 {
                // under of a dyadic arithmetic function: the do-half saves one argument on the hidden
                // context stack, the inner function runs (and may fail), the undo-half pops it
                let f = *r.pick(&["+", "×", "-", "⊙(+)", "+ 1", "⊙(×)"]);
                let l = 1 + r.below(3);
                if r.chance(1, 3) {
                    // a failure BETWEEN the do-half and the undo-half of an under, caught by a try:
                    // the saved context value must be gone when the handler runs
                    let f2 = *r.pick(&["+", "×", "-"]);
                    let k2 = r.below(4);
                    format!("⍣(⍜({f2})({} ⍤\"boom\" <{k2} .))({})", self.body(r, depth - 1, l - 1), r.pick(&DYADIC))
                } else {
                    format!("⍜({f})({})", self.body(r, depth - 1, l))
                }
            } else if k < 90 {
                if r.chance(1, 10) {
                    // un-both of an invertible function (ImplPrimitive::UnBothImpl): the runs go top group first
                    let m = *r.pick(&["°∩", "°∩₃", "°∩"]);
                    let f = *r.pick(&["+1", "×2", "¯", "-1", "+", "⊙(+1)"]);
                    format!("{m}({f})")
                } else {
                    let m = *r.pick(&["⊙", "⋅", "⟜", "⊸", "⤙", "⤚", "◡", "∩", "⍩", "∩₃", "∩₄", "⟜₂", "⟜₃", "∩₁"]);
                    let l = 1 + r.below(3);
                    format!("{m}({})", self.body(r, depth - 1, l))
                }
            } else if k < 92 {
                // try with two handlers; a handler may take the error value (popped here)
                let (l1, l2, l3) = (1 + r.below(3), 1 + r.below(3), 1 + r.below(3));
                let e2 = if r.chance(1, 2) { "◌ " } else { "" };
                let e3 = if r.chance(1, 2) { "◌ " } else { "" };
                // the middle handler may fail: with a constant assertion (the compiler then knows it never
                // returns and widens its signature to the try's: compile/mod.rs try_, is_noreturn) or with an
                // assertion on a run-time value (it keeps its own signature, so it can be GIVEN the error
                // value beneath the arguments when it has fewer outputs than the try)
                let fail2 = match r.below(4) {
                    0 => "⍤\"mid\"0 ",
                    1 | 2 => "⍤\"mid\" <0 ⌵ . ",
                    _ => "",
                };
                format!(
                    "⍣({}|{fail2}{e2}{}|{e3}{})",
                    self.body(r, depth - 1, l1),
                    self.body(r, depth - 1, l2),
                    self.body(r, depth - 1, l3)
                )
            } else if k < 96 {
                let m = *r.pick(&["⊃", "⊓", "⍣"]);
                let (l1, l2) = (1 + r.below(3), 1 + r.below(3));
                format!("{m}({})({})", self.body(r, depth - 1, l1), self.body(r, depth - 1, l2))
            } else {
                let (l1, l2) = (1 + r.below(3), 1 + r.below(3));
                format!("⨬({}|{})", self.body(r, depth - 1, l1), self.body(r, depth - 1, l2))
            };
            items.push(it);
        }
        items.reverse();
        items.join(" ")
    }
    pub fn program(&mut self, r: &mut Rng) -> String {
        self.fns.clear();
        let mut src = String::new();
        let nf = r.below(3);
        for i in 0..nf {
            let l = 1 + r.below(4);
            let b = self.body(r, 2, l);
            src.push_str(&format!("F{} ← {}\n", (b'a' + i as u8) as char, b));
            self.fns.push(b);
        }
        let l = 2 + r.below(6);
        let main = self.body(r, 3, l);
        let lits: Vec<String> = (0..6).map(|_| format!("{}", r.range(0, 3))).collect();
        src.push_str(&format!("{} {}\n", main, lits.join(" ")));
        src
    }
}

pub fn ints_of(vs: &[uiua::Value]) -> Option<Vec<i64>> {
    let mut out = Vec::new();
    for v in vs {
        if v.rank() != 0 {
            return None;
        }
        match v {
            uiua::Value::Num(a) => {
                let x = *a.elements().next()?;
                if x.fract() != 0.0 || x.abs() > 1e15 {
                    return None;
                }
                out.push(x as i64)
            }
            uiua::Value::Byte(a) => out.push(*a.elements().next()? as i64),
            _ => return None,
        }
    }
    Some(out)
}

