(* C08 thorough tier: line-protocol driver around the EXTRACTED reference (prims.ml, produced by
   `Extraction "prims.ml" check_case run.` with ExtrOcamlBasic only: nat/positive/Z/N stay the
   Coq datatypes).  Reads one compact case per line on stdin (grammar: harness/src/bin/c08.rs),
   prints the verdict of Prims.check_case per line: 0 agree, 1 disagree, 2 unspecified
   (9: the extracted code ran out of stack, which the check reports as a broken obligation). *)
open Prims

let rec nat_of_int i = if i <= 0 then O else S (nat_of_int (i - 1))
let rec pos_of_int i = if i = 1 then XH else if i land 1 = 1 then XI (pos_of_int (i lsr 1)) else XO (pos_of_int (i lsr 1))
let z_of_int i = if i = 0 then Z0 else if i > 0 then Zpos (pos_of_int i) else Zneg (pos_of_int (- i))
let n_of_int i = if i = 0 then N0 else Npos (pos_of_int i)

let toks = ref [||]
let pos = ref 0
let next () = let t = !toks.(!pos) in incr pos; t
let next_int () = int_of_string (next ())

let ety_of = function "n" -> TNum | "c" -> TChar | "b" -> TBox | s -> failwith ("ety " ^ s)

let rec p_arr () : ety * nat list * elem list =
  if next () <> "a" then failwith "expected a";
  let ty = next () in
  let rank = next_int () in
  let shape = List.init rank (fun _ -> next_int ()) in
  let n = List.fold_left ( * ) 1 shape in
  let elems = List.init n (fun _ ->
    match ty with
    | "n" -> ENum (z_of_int (next_int ()))
    | "c" -> EChar (n_of_int (next_int ()))
    | _ -> let (t, s, d) = p_arr () in EBox (t, s, d)) in
  (ety_of ty, List.map nat_of_int shape, elems)

let arr_of (t, s, d) = { aty = t; ash = s; adata = d }

let p_amt () = match next () with
  | "inf" -> AInf false | "ninf" -> AInf true | "frac" -> AFrac | "nan" -> ANaN
  | s -> AInt (z_of_int (int_of_string (String.sub s 1 (String.length s - 1))))

let aop_of = function
  | "ATake" -> ATake | "ADrop" -> ADrop | "ARotate" -> ARotate | "AReshape" -> AReshape
  | "ASelect" -> ASelect | "APick" -> APick | "AKeep" -> AKeep | s -> failwith ("aop " ^ s)

let p_op () = match next () with
  | "OLit" ->
      let a = aop_of (next ()) in
      let sc = next () = "1" in
      let m = next_int () in
      let amts = List.init m (fun _ -> p_amt ()) in
      OLit (a, sc, amts)
  | "OP2:PAdd" -> OP2 PAdd | "OP2:PSub" -> OP2 PSub | "OP2:PMul" -> OP2 PMul
  | "OP2:PEq" -> OP2 PEq | "OP2:PNe" -> OP2 PNe | "OP2:PLt" -> OP2 PLt | "OP2:PLe" -> OP2 PLe
  | "OP2:PGt" -> OP2 PGt | "OP2:PGe" -> OP2 PGe | "OP2:PMin" -> OP2 PMin | "OP2:PMax" -> OP2 PMax
  | "OP1:PNeg" -> OP1 PNeg | "OP1:PAbs" -> OP1 PAbs | "OP1:PSign" -> OP1 PSign | "OP1:PNot" -> OP1 PNot
  | "OLen" -> OLen | "OShape" -> OShape | "ORange" -> ORange | "OFirst" -> OFirst | "OLast" -> OLast
  | "OReverse" -> OReverse | "ODeshape" -> ODeshape | "OFix" -> OFix | "OTranspose" -> OTranspose
  | "OSort" -> OSort | "ORise" -> ORise | "OFall" -> OFall | "OWhere" -> OWhere
  | "OClassify" -> OClassify | "ODedup" -> ODedup | "OBox" -> OBox | "OUnbox" -> OUnbox
  | "OMatch" -> OMatch | "OCouple" -> OCouple | "OJoin" -> OJoin | "OMember" -> OMember
  | "OIndexIn" -> OIndexIn | "OFind" -> OFind
  | "OAmt:ATake" -> OAmt ATake | "OAmt:ADrop" -> OAmt ADrop | "OAmt:ARotate" -> OAmt ARotate
  | "OAmt:AReshape" -> OAmt AReshape | "OAmt:ASelect" -> OAmt ASelect | "OAmt:APick" -> OAmt APick
  | "OAmt:AKeep" -> OAmt AKeep
  | "ODup" -> ODup | "OFlip" -> OFlip
  | s -> failwith ("op " ^ s)

let p_case line : tcase =
  toks := Array.of_list (List.filter (fun s -> s <> "") (String.split_on_char ' ' line));
  pos := 0;
  let fill = match next () with
    | "f0" -> None
    | _ -> let t = next () in let v = next_int () in
           Some (if t = "n" then ENum (z_of_int v) else EChar (n_of_int v)) in
  if next () <> "p" then failwith "expected p";
  let k = next_int () in
  let prog = List.init k (fun _ -> p_op ()) in
  if next () <> "s" then failwith "expected s";
  let k = next_int () in
  let stack = List.init k (fun _ -> arr_of (p_arr ())) in
  let expect = match next () with
    | "err" -> None
    | "ok" -> let k = next_int () in Some (List.init k (fun _ -> arr_of (p_arr ())))
    | s -> failwith ("result " ^ s) in
  if !pos <> Array.length !toks then failwith "trailing tokens";
  { tc_fill = fill; tc_prog = prog; tc_stack = stack; tc_expect = expect }

let () =
  try
    while true do
      let line = input_line stdin in
      if String.trim line <> "" then begin
        let c = p_case line in
        (* 9 = the extracted reference ran out of stack on this case: reported, never a silent skip *)
        print_string (try (match check_case c with N0 -> "0" | Npos XH -> "1" | _ -> "2") with Stack_overflow -> "9");
        print_newline ()
      end
    done
  with End_of_file -> ()
